"""Rule vocabulary over the flow engine.

Rules are written as facts about *access paths* (see flow.py), never about
source text or statement shapes:

  reaches   "an access path with components ... flows into this argument /
             return value / stored attribute"
  effects   "calls matching P performed by f or by repository helpers it
             calls (with the helper's parameters bound to f's arguments)"
  control   "the access paths the execution of this node depends on (tests of
             enclosing if/while/conditional expressions, transitively through
             flag variables)"
  must      "every normal path through f performs an effect matching P"

A *pattern* is a tuple of components that must occur, in order, among the
dotted components of one access path: ('host', 'path') matches
`install_outputs.host.path` and `x.host.files.path.relpath(~)`. A component
ending in `()` matches a call component of that name with any arguments; a
component containing `(` must equal the call component (constant arguments
spelled out, e.g. "tool('rm')").
"""
import ast
import re

from .cfg import EXIT, build as build_cfg
from .flow import Flow
from .index import AnalysisError, unparse, walk_no_nested
from . import query as Q


def components(atom):
    """Split an access path into its dotted components, keeping call
    parentheses and subscripts attached to their component."""
    if atom.startswith('via:'):
        atom = atom[4:]
    if atom.startswith('param:'):
        atom = atom[6:]
    out, cur, depth, q = [], '', 0, None
    for ch in atom:
        if q:
            cur += ch
            if ch == q:
                q = None
            continue
        if ch in '\'"':
            q = ch
            cur += ch
        elif ch in '([':
            depth += 1
            cur += ch
        elif ch in ')]':
            depth -= 1
            cur += ch
        elif ch == '.' and depth == 0:
            out.append(cur)
            cur = ''
        else:
            cur += ch
    if cur:
        out.append(cur)
    # split trailing call groups: "tool('rm')(~)" -> "tool('rm')", "(~)"
    return out


def _comp_match(comp, want):
    if want.endswith('()') and '(' not in want[:-2]:
        name = want[:-2]
        return comp == name + '()' or comp.startswith(name + '(')
    if want.startswith('['):
        return want in comp
    if '(' in want or '[' in want:
        return comp == want or comp.startswith(want)
    # plain identifier: match the identifier part of the component
    m = re.match(r'[A-Za-z_][A-Za-z_0-9]*', comp)
    return bool(m) and m.group(0) == want and not comp[len(want):].startswith(
        '(')


def _split_group(want):
    """'a.b' (dots outside parentheses/brackets/quotes) -> ['a', 'b']:
    components that must be adjacent."""
    return components(want) if '.' in want else [want]


def path_matches(atom, pattern):
    """The pattern elements occur in order among the components of the
    access path; an element written 'a.b' requires a immediately followed
    by b."""
    if atom.startswith(('const:', 'key:')):
        return False
    comps = components(atom)
    groups = [_split_group(p) for p in pattern]

    def match_from(ci, gi):
        if gi == len(groups):
            return True
        g = groups[gi]
        for start in range(ci, len(comps) - len(g) + 1):
            if all(_comp_match(comps[start + k], g[k])
                   for k in range(len(g))):
                if match_from(start + len(g), gi + 1):
                    return True
        return False
    return match_from(0, 0)


def has(atoms, *pattern):
    """Some access path in `atoms` contains the components of `pattern` in
    order."""
    return any(path_matches(a, pattern) for a in atoms)


def direct(atoms):
    """Only the access paths the value *is* (or is an element of), without
    those that merely flowed into an opaque computation of it."""
    return {a for a in atoms if not a.startswith('via:')}


def param_of(atoms, name):
    return ('param:' + name) in atoms or ('via:param:' + name) in atoms


def has_const(atoms, value):
    return ('const:' + repr(value)) in atoms


def has_call(atoms, name):
    """Marker of a call to a function/method called `name` (resolved or
    opaque)."""
    for a in atoms:
        if a.startswith(('const:', 'key:')):
            continue
        comps = components(a)
        if comps and _comp_match(comps[-1], name + '()'):
            return True
        if any(_comp_match(c, name + '()') for c in comps):
            return True
    return False


def paths(atoms):
    return sorted(a for a in atoms if not a.startswith(('const:', 'key:')))


class Effect:
    """A call found in a function or one of the helpers it calls, with the
    binding under which its arguments should be read."""
    __slots__ = ('call', 'fn', 'bind', 'chain', 'facts', 'outer',
                 'outer_with', 'path')

    def __init__(self, call, fn, bind, chain, facts, outer=frozenset(),
                 outer_with=frozenset(), path=()):
        self.call, self.fn, self.bind, self.chain = call, fn, bind, chain
        self.facts = facts
        self.outer = outer      # control atoms of the calls leading here
        self.outer_with = outer_with   # `with` contexts of those calls
        # ((fn, node), ...) from the analysed function down to this call
        self.path = path + ((fn, call),)

    def arg(self, pos=None, kw=None, shallow=False):
        """Atoms of a positional/keyword argument (empty set if absent).
        shallow=True does not look into repository callees (their calls
        appear as markers only)."""
        e = None
        if pos is not None and 0 <= pos < len(self.call.args) and not any(
                isinstance(a, ast.Starred) for a in self.call.args[:pos + 1]):
            e = self.call.args[pos]
        elif pos is not None:
            # f(a, *rest): position >= 1 is (some element of) `rest`
            for i, a in enumerate(self.call.args[:pos + 1]):
                if isinstance(a, ast.Starred):
                    e = a.value
                    break
        if e is None and kw is not None:
            e = Q.kwarg(self.call, kw)
        if e is None and kw is not None:
            # **mapping built in this function
            for k in self.call.keywords:
                if k.arg is None:
                    rec = self.facts.flow.record(k.value, self.fn, self.bind)
                    if rec and kw in rec:
                        return self.facts.flow.rec_atoms(rec, kw)
        if e is None:
            return set()
        if shallow:
            return self.facts.flow.atoms(e, self.fn, self.bind,
                                         self.facts.flow.max_depth)
        return self.facts.flow.atoms(e, self.fn, self.bind)

    def kw_exprs(self, kw):
        """[(expr, fn, bind)] of the value(s) passed for keyword `kw`:
        the explicit keyword, or the entries of a `**mapping` built in
        this function."""
        e = Q.kwarg(self.call, kw)
        if e is not None:
            return [(e, self.fn, self.bind)]
        out = []
        for k in self.call.keywords:
            if k.arg is None:
                rec = self.facts.flow.record(k.value, self.fn, self.bind)
                if rec and kw in rec:
                    out += list(rec[kw])
        return out

    def all_args(self, shallow=False):
        out = set()
        for a in list(self.call.args) + [k.value for k in
                                         self.call.keywords]:
            out |= self.facts.flow.atoms(
                a, self.fn, self.bind,
                self.facts.flow.max_depth if shallow else 0)
        return out

    def texts(self):
        return self.facts.flow._call_texts(self.call, self.fn, self.bind, 0,
                                           set())

    def heads(self):
        """Canonical texts of the callee expression (`env.tool('rm')` for
        the call `env.tool('rm')(files)`)."""
        return self.facts.flow._call_heads(self.call, self.fn, self.bind, 0,
                                           set())

    def callee_is(self, comp):
        """The called object itself is `<...>.comp` (last component of a
        head), e.g. callee_is("tool('rm')") for env.tool('rm')(files)."""
        for h in self.heads():
            cs = components(h)
            if cs and _comp_match(cs[-1], comp):
                return True
        return False

    def recv(self):
        if isinstance(self.call.func, ast.Attribute):
            return self.facts.flow.atoms(self.call.func.value, self.fn,
                                         self.bind)
        return set()

    @property
    def name(self):
        f = self.call.func
        return f.attr if isinstance(f, ast.Attribute) else (
            f.id if isinstance(f, ast.Name) else '')

    def control(self):
        return self.facts.control(self.call, self.fn, self.bind) | set(
            self.outer)

    def withs(self):
        """Atoms of the context expressions of every `with` statement this
        call executes under (in its function or in the callers on the
        path from the analysed function)."""
        return self.facts.withs(self.call, self.fn, self.bind) | set(
            self.outer_with)

    def arg_tests(self):
        """Atoms of the tests of conditional expressions inside the
        arguments (what decides *which* value is passed)."""
        out = set()
        F = self.facts
        todo = list(self.call.args) + [k.value for k in self.call.keywords]
        seen = set()
        while todo:
            a = todo.pop()
            for n in ast.walk(a):
                if isinstance(n, ast.IfExp):
                    out |= F.flow.atoms(n.test, self.fn, self.bind)
                elif isinstance(n, ast.Name) and isinstance(
                        n.ctx, ast.Load) and n.id not in seen:
                    # a local holding the value: the tests inside its
                    # definitions and the guards selecting between them
                    seen.add(n.id)
                    ds = F._def_sites(n.id, self.fn)
                    for d in ds:
                        todo.append(d.value)
                        if len(ds) > 1:
                            out |= F.control(d, self.fn, self.bind)
        return out

    def kw_const(self, name, default=None):
        k = Q.kwarg(self.call, name)
        if isinstance(k, ast.Constant):
            return k.value
        return default

    def loops(self):
        """Enclosing for-loops / comprehensions of the call (innermost
        first) inside its own function."""
        out = []
        n = self.call
        while n is not None and n is not self.fn.node:
            n = getattr(n, '_parent', None)
            if isinstance(n, (ast.For, ast.ListComp, ast.GeneratorExp,
                              ast.SetComp, ast.DictComp)):
                out.append(n)
        return out


class Facts:
    def __init__(self, repo):
        self.repo = repo
        self.flow = Flow(repo)
        self._cfg = {}

    # -- lookups (fail closed) -------------------------------------------
    def fn(self, fq):
        if self.repo.has_func(fq):
            return self.repo.func(fq)
        mod, qual = fq.split(':')
        if '.' in qual:
            c, m = qual.rsplit('.', 1)
            return self.repo.method(mod + ':' + c, m)
        raise AnalysisError('anchor function missing: ' + fq)

    # -- value facts ---------------------------------------------------------
    def atoms(self, e, fn, bind=None):
        return self.flow.atoms(e, fn, bind)

    def returns(self, fn, bind=None):
        """Atoms of everything fn can return / yield."""
        out = set()
        for r in self.flow._returns(fn):
            out |= self.flow.atoms(r, fn, bind)
        return out

    def stored(self, fn, attr, base='self', depth=1):
        """Atoms of the values fn -- or, for `self`, a helper method of the
        same class it calls -- stores into `<base>.<attr>` (assignment,
        augmented assignment, or in-place mutation through append/extend/
        update/[k]=)."""
        out, found = set(), False
        frames = [(fn, None)]
        if depth > 0 and base == 'self' and fn.cls is not None:
            frames = [(g, b) for g, b in self.frames(fn, depth)
                      if g.cls is fn.cls]
        for g, b in frames:
            r = self._stored_in(g, attr, base, b)
            if r is not None:
                found = True
                out |= r
        return out if found else None

    def _stored_in(self, fn, attr, base, bind):
        out = set()
        found = False
        for n in walk_no_nested(fn.node):
            tgts = []
            if isinstance(n, ast.Assign):
                tgts = [(t, n.value) for t in n.targets]
            elif isinstance(n, (ast.AugAssign, ast.AnnAssign)) and \
                    n.value is not None:
                tgts = [(n.target, n.value)]
            for t, v in tgts:
                t0 = t
                while isinstance(t0, ast.Subscript):
                    t0 = t0.value
                if isinstance(t0, ast.Attribute) and t0.attr == attr and \
                        isinstance(t0.value, ast.Name) and \
                        t0.value.id == base:
                    found = True
                    out |= self.flow.atoms(v, fn, bind)
            if isinstance(n, ast.Call) and isinstance(
                    n.func, ast.Attribute) and n.func.attr in (
                        'append', 'extend', 'update', 'add', 'insert',
                        'setdefault'):
                r = n.func.value
                while isinstance(r, ast.Subscript):
                    r = r.value
                if isinstance(r, ast.Attribute) and r.attr == attr and \
                        isinstance(r.value, ast.Name) and r.value.id == base:
                    found = True
                    for a in n.args:
                        out |= self.flow.atoms(a, fn, bind)
        return out if found else None

    # -- effects -------------------------------------------------------------
    def effects(self, fn, pred, depth=3):
        """Calls c (anywhere in fn, its nested functions, or repository
        helpers reachable through at most `depth` resolved calls) with
        pred(Effect) true."""
        out = []
        self._effects(fn, None, pred, depth, (), set(), out, frozenset(),
                      frozenset(), ())
        return out

    def spec_binds(self, node, fn, bind):
        """The bindings under which `node` is analysed: [bind], or -- when
        the node sits in a `for` loop over a constant table (`for field, key
        in (('Requires', 'requires'), ...)`) -- one binding per row with the
        loop variables fixed to that row's constants (the loop unrolled)."""
        n = node
        while n is not None and n is not fn.node:
            p = getattr(n, '_parent', None)
            if isinstance(p, ast.For) and any(n is x for x in p.body):
                memo = self.__dict__.setdefault('_rows_memo', {})
                key = (id(p), self.flow._bkey(bind))
                if key not in memo:
                    memo[key] = self.flow.loop_binds(p, fn, bind)
                    if memo[key] is None:
                        memo[key] = self._generator_rows(p, fn, bind)
                rows = memo[key]
                if rows:
                    out = []
                    for row in rows:
                        b = dict(bind or {})
                        b.update(row)
                        out.append(b)
                    return out
            n = p
        return [bind]

    def _generator_rows(self, loop, fn, bind, _d=0):
        """`for a, b in self._rows(..)` where `_rows` is a repository
        generator that yields tuples: one binding of the loop variables per
        `yield` (per row of a constant table the yield sits in), cells as
        constants or as the atoms of the yielded expressions."""
        it = loop.iter
        if not isinstance(it, ast.Call) or _d > 1:
            return None
        callee = self.flow.resolve_call(it, fn)
        if callee is None:
            return None
        ys = [n for n in walk_no_nested(callee.node)
              if isinstance(n, ast.Yield) and n.value is not None]
        if not ys or len(ys) > 16:
            return None
        t = loop.target
        names = [x.id for x in (t.elts if isinstance(t, (ast.Tuple, ast.List))
                                else [t]) if isinstance(x, ast.Name)]
        if not names:
            return None
        cb = self.flow._bind_args(it, callee, fn, bind, 0, set())
        out = []
        for y in ys:
            cells = y.value.elts if isinstance(
                y.value, ast.Tuple) and isinstance(t, (ast.Tuple, ast.List)) \
                else [y.value]
            if len(cells) != len(names):
                return None
            for b in self.spec_binds(y, callee, cb):
                tok = 'yield:{}:{}'.format(id(y), len(self.__dict__.setdefault(
                    '_yields', {})))
                self._yields[tok] = (y, callee, b)
                row = {'#yield': {tok}}
                for nm, cell in zip(names, cells):
                    if isinstance(cell, ast.Constant):
                        row['=' + nm] = {'const:' + repr(cell.value)}
                    else:
                        row['=' + nm] = set(self.flow.atoms(cell, callee, b))
                out.append(row)
        if not out or len(out) > 24 or not any(
                a.startswith('const:') for r_ in out
                for k_, v in r_.items() if not k_.startswith('#') for a in v):
            return None
        return out

    def _yield_site(self, bind):
        """(yield node, generator fn, bind) when `bind` specialises a loop
        body to one `yield` of a generator helper: the body runs for that
        row only if the yield was reached."""
        if bind and '#yield' in bind:
            return self.__dict__.get('_yields', {}).get(
                next(iter(bind['#yield'])))
        return None

    def _effects(self, fn, bind, pred, depth, chain, stack, out, outer,
                 owith, path):
        bind0 = bind
        if fn.fq in stack:
            return
        stack = stack | {fn.fq}
        nested_called = set()
        for c0 in Q.calls(fn.node, nested=False):
          if self._in_invoked_lambda(c0, fn):
              continue      # reported where the callee invokes the lambda
          for c, bind in [(c0, b_) for b_ in self.spec_binds(c0, fn, bind0)]:
            eff = Effect(c, fn, bind, chain, self, outer, owith, path)
            if pred(eff):
                out.append(eff)
            # a call of a parameter that the caller bound to a lambda: the
            # calls in the lambda's body happen here
            if isinstance(c.func, ast.Name) and c.func.id in Q.params(
                    fn.node) and depth >= 0:
                pe = self.flow.param_expr(c.func.id, fn, bind)
                if pe is not None and isinstance(pe[0], ast.Lambda):
                    lam, lf, lb = pe
                    for ic in ast.walk(lam.body):
                        if isinstance(ic, ast.Call):
                            e2 = Effect(ic, lf, lb, chain, self, outer,
                                        owith, path + ((fn, c),))
                            if pred(e2):
                                out.append(e2)
            callee = self.flow.resolve_call(c, fn)
            if callee is None and depth > 0:
                for m in self.flow.dynamic_methods(c, fn, bind):
                    b = self.flow._bind_args_method(c, m, fn, bind, 0,
                                                    set())
                    self._effects(m, b, pred, depth - 1,
                                  chain + (m.qualname,), stack, out,
                                  outer | frozenset(self.control(
                                      c, fn, bind)),
                                  owith | frozenset(self.withs(
                                      c, fn, bind)), path + ((fn, c),))
            part = callee is not None and self.private_part(callee, fn)
            if depth <= 0 and not part:
                callee = None
            if depth > 0 or part:
                if callee is not None:
                    b = self.flow._bind_args(c, callee, fn, bind, 0, set())
                    if self._is_nested_in(callee, fn):
                        nested_called.add(callee.fq)
                    # a private part of fn does not use up depth
                    self._effects(callee, b, pred,
                                  depth if part or self._is_nested_in(
                                      callee, fn) else depth - 1,
                                  chain + (callee.qualname,), stack, out,
                                  outer | frozenset(self.control(
                                      c, fn, bind)),
                                  owith | frozenset(self.withs(
                                      c, fn, bind)), path + ((fn, c),))
                # repository functions passed as values (callbacks,
                # functools.partial, map, ...): unbound
                for a in (list(c.args) + [k.value for k in c.keywords]
                          if depth > 0 else []):
                    if isinstance(a, (ast.Name, ast.Attribute)):
                        try:
                            r = self.repo.resolve_expr(
                                fn.module, a, self.repo.local_scope(fn))
                        except Exception:
                            r = None
                        if r is not None and r[0] == 'func' and \
                                r[1].fq not in stack:
                            self._effects(
                                r[1], None, pred, depth - 1,
                                chain + (r[1].qualname,), stack, out,
                                outer | frozenset(self.control(c, fn, bind)),
                                owith | frozenset(self.withs(c, fn, bind)),
                                path + ((fn, c),))
        bind = bind0
        # nested functions never called directly (callbacks): unbound
        for n in walk_no_nested(fn.node):
            if isinstance(n, (ast.FunctionDef, ast.AsyncFunctionDef)) and \
                    getattr(n, '_func', None) is not None and \
                    n._func.fq not in nested_called:
                self._effects(n._func, None, pred, depth,
                              chain + (n._func.qualname,), stack, out,
                              outer | frozenset(self.control(n, fn, bind)),
                              owith | frozenset(self.withs(n, fn, bind)),
                              path + ((fn, n),))

    def _in_invoked_lambda(self, call, fn):
        """`call` sits in the body of a lambda that is passed as an argument
        to a repository function which calls that parameter: the call
        happens when (and where) the callee invokes the lambda."""
        n = call
        while n is not None and n is not fn.node:
            p = getattr(n, '_parent', None)
            if isinstance(p, ast.Lambda) and n is p.body or isinstance(
                    n, ast.Lambda):
                lam = p if isinstance(p, ast.Lambda) else n
                outer = getattr(lam, '_parent', None)
                if isinstance(outer, ast.keyword):
                    outer = getattr(outer, '_parent', None)
                if isinstance(outer, ast.Call) and lam is not outer.func:
                    callee = self.flow.resolve_call(outer, fn)
                    if callee is not None:
                        b = self.flow._bind_args(outer, callee, fn, None, 0,
                                                 set())
                        for pn in Q.params(callee.node):
                            pe = self.flow.param_expr(pn, callee, b)
                            if pe is not None and pe[0] is lam and any(
                                    isinstance(c, ast.Call) and isinstance(
                                        c.func, ast.Name) and c.func.id == pn
                                    for c in ast.walk(callee.node)):
                                return True
                return False
            n = p
        return False

    def private_part(self, callee, fn):
        """callee is a private helper (leading underscore, same module) all
        of whose call sites are in fn (or in callee itself): extracting it
        from fn -- or inlining it back -- changes no fact about fn, so it
        is analysed as part of fn at any depth."""
        memo = self.__dict__.setdefault('_pp_memo', {})
        key = (callee.fq, fn.fq)
        if key in memo:
            return memo[key]
        name = callee.node.name
        ok = name.startswith('_') and not (
            name.startswith('__') and name.endswith('__')) and \
            callee.module is fn.module and callee is not fn
        if ok:
            try:
                callers = Q.find_callers(self.repo, callee, by_name_ok=False)
            except Exception:
                callers = []
            ok = bool(callers)
            for m, c, exact in callers:
                g = self.repo.enclosing_func(c)
                while g is not None and g is not fn and g is not callee and \
                        self._is_nested_somewhere(g):
                    g = self.repo.enclosing_func(g.node)
                if g is not fn and g is not callee:
                    ok = False
                    break
        memo[key] = ok
        return ok

    def _is_nested_somewhere(self, g):
        p = getattr(g.node, '_parent', None)
        while p is not None:
            if isinstance(p, (ast.FunctionDef, ast.AsyncFunctionDef)):
                return True
            p = getattr(p, '_parent', None)
        return False

    def _is_nested_in(self, callee, fn):
        p = getattr(callee.node, '_parent', None)
        while p is not None:
            if p is fn.node:
                return True
            p = getattr(p, '_parent', None)
        return False

    def reach(self, fn, depth=2):
        """fn, its nested functions, and the repository functions they call
        (resolved callees, up to `depth` calls away)."""
        seen, out = set(), []

        def go(f, d):
            if f.fq in seen:
                return
            seen.add(f.fq)
            out.append(f)
            for n in ast.walk(f.node):
                if isinstance(n, (ast.FunctionDef, ast.AsyncFunctionDef)) \
                        and n is not f.node and getattr(n, '_func', None):
                    go(n._func, d)
            for c in Q.calls(f.node, nested=False):
                callee = self.flow.resolve_call(c, f)
                if callee is not None and self.private_part(callee, f):
                    go(callee, d)
            if d > 0:
                for c in Q.calls(f.node, nested=False):
                    callee = self.flow.resolve_call(c, f)
                    if callee is not None:
                        go(callee, d - 1)
                    else:
                        for m in self.flow.dynamic_methods(c, f):
                            go(m, d - 1)
                    # repository functions passed as values (callbacks,
                    # functools.partial, map, ...)
                    for a in list(c.args) + [k.value for k in c.keywords]:
                        if isinstance(a, (ast.Name, ast.Attribute)):
                            try:
                                r = self.repo.resolve_expr(
                                    f.module, a, self.repo.local_scope(f))
                            except Exception:
                                r = None
                            if r is not None and r[0] == 'func':
                                go(r[1], d - 1)
        go(fn, depth)
        return out

    def frames_p(self, fn, depth=2):
        """Like frames(), with the call path: (function, binding, ((caller,
        call node), ...))."""
        out, seen = [], set()

        def go(f, b, d, stack, path):
            key = (f.fq, self.flow._bkey(b))
            if key in seen or f.fq in stack:
                return
            seen.add(key)
            out.append((f, b, path))
            if True:
                for c0 in Q.calls(f.node, nested=False):
                    callee = self.flow.resolve_call(c0, f)
                    if callee is None:
                        continue
                    if d <= 0 and not self.private_part(callee, f):
                        continue
                    for b_ in self.spec_binds(c0, f, b):
                        cb = self.flow._bind_args(c0, callee, f, b_, 0,
                                                  set())
                        go(callee, cb, d if self.private_part(callee, f)
                           else d - 1, stack | {f.fq}, path + ((f, c0),))
        go(fn, None, depth, frozenset(), ())
        return out

    def frames(self, fn, depth=2):
        """(function, binding) of fn and of every repository helper it
        calls (resolved callees up to `depth` calls away, parameters bound
        to the atoms of the arguments at the call site): where a rule looks
        at the statements of "fn and its helpers"."""
        out, seen = [], set()

        def go(f, b, d, stack):
            key = (f.fq, self.flow._bkey(b))
            if key in seen or f.fq in stack:
                return
            seen.add(key)
            out.append((f, b))
            for n in ast.walk(f.node):
                if isinstance(n, (ast.FunctionDef, ast.AsyncFunctionDef)) \
                        and n is not f.node and getattr(n, '_func', None):
                    go(n._func, None, d, stack | {f.fq})
            if True:
                for c in Q.calls(f.node, nested=False):
                    callee = self.flow.resolve_call(c, f)
                    if callee is not None and (
                            d > 0 or self.private_part(callee, f)):
                        cb = self.flow._bind_args(c, callee, f, b, 0, set())
                        go(callee, cb, d if self.private_part(callee, f)
                           else d - 1, stack | {f.fq})
        go(fn, None, depth, frozenset())
        return out

    def reaching_defs(self, fn, name_node, with_stmt=False):
        """Value expressions of the assignments to a local that may reach
        this use of it (some path from the assignment to the use passes no
        other assignment of the same name). For/with/unpacking definitions
        are returned as None."""
        name = name_node.id
        g = self.cfg(fn)
        try:
            use = g.stmt_of(name_node)
        except Exception:
            return []
        defs = []
        for n in walk_no_nested(fn.node):
            tg = []
            if isinstance(n, ast.Assign):
                tg = n.targets
            elif isinstance(n, (ast.AugAssign, ast.AnnAssign)):
                tg = [n.target]
            elif isinstance(n, (ast.For, ast.AsyncFor)):
                tg = [n.target]
            for t in tg:
                for x in ast.walk(t):
                    if isinstance(x, ast.Name) and x.id == name:
                        single = isinstance(n, ast.Assign) and any(
                            isinstance(t_, ast.Name) and t_.id == name
                            for t_ in n.targets)
                        defs.append((n, n.value if single else None))
        out = []
        for st, val in defs:
            others = [d for d, v in defs if d is not st]
            if st is use:
                continue
            try:
                if g.reaches(st, use, avoiding=others):
                    out.append((st, val) if with_stmt else val)
            except Exception:
                out.append((st, val) if with_stmt else val)
        return out

    def must_carry(self, fn, expr, param, depth=0):
        """On every path to this use, the value of `expr` is computed from
        parameter `param` of fn (must-flow; `atoms` is may-flow): a name is
        followed through every reaching definition (and the parameter's
        own binding), a conditional expression through both arms, any
        other expression carries the value if it mentions a carrier outside
        a condition."""
        if depth > 6:
            return False
        if isinstance(expr, ast.Name):
            from .cfg import ENTRY
            params = set(Q.params(fn.node))
            try:
                rd = self.reaching_defs(fn, expr, with_stmt=True)
                g = self.cfg(fn)
                use = g.stmt_of(expr)
            except Exception:
                return False
            alldefs = [st for st, v in self._all_defs(fn, expr.id)]
            initial = expr.id in params and (
                not alldefs or g.reaches(ENTRY, use, avoiding=alldefs) or
                use in alldefs and not any(
                    d is not use for d in alldefs))
            if initial and expr.id != param:
                return False
            if not rd and not initial:
                return False
            for st, v in rd:
                if isinstance(st, ast.AugAssign) and v is None:
                    # x += more: keeps what x carried before
                    continue
                if v is None or not self.must_carry(fn, v, param, depth + 1):
                    return False
            return True
        if isinstance(expr, ast.IfExp):
            return self.must_carry(fn, expr.body, param, depth + 1) and \
                self.must_carry(fn, expr.orelse, param, depth + 1)
        if isinstance(expr, ast.BoolOp):
            return any(self.must_carry(fn, v, param, depth + 1)
                       for v in expr.values)
        if isinstance(expr, (ast.Constant, ast.Lambda)):
            return False
        subs = []
        if isinstance(expr, ast.Call):
            subs = list(expr.args) + [k.value for k in expr.keywords]
            if isinstance(expr.func, ast.Attribute):
                subs.append(expr.func.value)
        else:
            subs = [c for c in ast.iter_child_nodes(expr)
                    if isinstance(c, ast.expr)]
        return any(self.must_carry(
            fn, c.value if isinstance(c, ast.Starred) else c, param,
            depth + 1) for c in subs)

    def _all_defs(self, fn, name):
        out = []
        for n in walk_no_nested(fn.node):
            tg = []
            if isinstance(n, ast.Assign):
                tg = n.targets
            elif isinstance(n, (ast.AugAssign, ast.AnnAssign)):
                tg = [n.target]
            elif isinstance(n, (ast.For, ast.AsyncFor)):
                tg = [n.target]
            for t in tg:
                if any(isinstance(x, ast.Name) and x.id == name
                       for x in ast.walk(t)):
                    out.append((n, getattr(n, 'value', None)))
        return out

    def consts(self, fn, pred):
        """Constant nodes of fn (and nested functions) whose value satisfies
        pred."""
        return [n for n in ast.walk(fn.node) if isinstance(n, ast.Constant)
                and pred(n.value)]

    def gen_reuse(self, fn):
        """Locals bound (once) to a one-shot iterator -- a generator
        expression, map/filter/zip/iter, or a call of a repository generator
        function -- that are consumed at two sites one of which can run
        after the other: the second consumer sees an exhausted iterator.
        Returns [(name, first site, second site)]."""
        defs = self.flow.defs(fn.node)
        out = []
        g = None
        for name, ds in defs.items():
            if len(ds) != 1 or ds[0][0] != 'value' or name in Q.params(
                    fn.node):
                continue
            v = ds[0][1]
            oneshot = isinstance(v, ast.GeneratorExp)
            if isinstance(v, ast.Call):
                fname = unparse(v.func)
                if fname in ('map', 'filter', 'zip', 'iter', 'reversed',
                             'enumerate', 'chain', 'itertools.chain',
                             'accumulate', 'itertools.accumulate'):
                    oneshot = True
                else:
                    callee = self.flow.resolve_call(v, fn)
                    if callee is not None and any(
                            isinstance(n, (ast.Yield, ast.YieldFrom))
                            for n in walk_no_nested(callee.node)):
                        oneshot = True
            if not oneshot:
                continue
            sites = []
            for n in walk_no_nested(fn.node):
                if isinstance(n, ast.Name) and n.id == name and isinstance(
                        n.ctx, ast.Load):
                    p = getattr(n, '_parent', None)
                    if isinstance(p, (ast.For, ast.comprehension)) and \
                            p.iter is n:
                        sites.append(n)
                    elif isinstance(p, ast.Call) and n in p.args:
                        sites.append(n)
                    elif isinstance(p, ast.Starred):
                        sites.append(n)
                    elif isinstance(p, ast.YieldFrom):
                        sites.append(n)
            if len(sites) < 2:
                continue
            g = g or self.cfg(fn)
            for i, a in enumerate(sites):
                for b in sites[i + 1:]:
                    try:
                        sa_, sb = g.stmt_of(a), g.stmt_of(b)
                    except Exception:
                        continue
                    if sa_ is sb or g.reaches(sa_, sb) or g.reaches(sb, sa_):
                        out.append((name, a, b))
        return out

    def calls_to(self, fn, name, depth=3):
        return self.effects(fn, lambda e: e.name == name, depth)

    # -- control facts -------------------------------------------------------
    def guards(self, node, fn):
        """Test expressions the execution of `node` depends on, inside fn
        (innermost first): tests of enclosing if/while/conditional
        expressions, comprehension conditions, earlier operands of a
        short-circuit operator, and tests of earlier guard clauses
        (`if ...: return/raise/continue/break`) of the enclosing blocks."""
        return [t for t, pos in self.guards_pol(node, fn)]

    def guards_pol(self, node, fn):
        """Like guards(), as (test, polarity): polarity True means the test
        was true on the way to `node`, False that it was false."""
        out = []
        n = node
        while True:
            p = getattr(n, '_parent', None)
            if p is None or n is fn.node:
                break
            if isinstance(p, (ast.If, ast.While)) and n is not p.test:
                out.append((p.test, n in p.body))
            elif isinstance(p, ast.IfExp) and n is not p.test:
                out.append((p.test, n is p.body))
            elif isinstance(p, (ast.ListComp, ast.GeneratorExp, ast.SetComp,
                                ast.DictComp)):
                for g in p.generators:
                    out.extend((t, True) for t in g.ifs)
            elif isinstance(p, ast.BoolOp) and n in p.values:
                out.extend((t, isinstance(p.op, ast.And))
                           for t in p.values[:p.values.index(n)])
            # guard clauses: earlier siblings that leave the block
            for field in ('body', 'orelse', 'finalbody'):
                blk = getattr(p, field, None)
                if isinstance(blk, list) and n in blk:
                    for s in blk[:blk.index(n)]:
                        while isinstance(s, ast.If):
                            if self._leaves(s.body):
                                out.append((s.test, False))
                                # if A: return .. elif B: return ..
                                if len(s.orelse) == 1:
                                    s = s.orelse[0]
                                    continue
                            elif s.orelse and self._leaves(s.orelse):
                                out.append((s.test, True))
                            break
            n = p
        return out

    def _leaves(self, body):
        return bool(body) and isinstance(
            body[-1], (ast.Return, ast.Raise, ast.Continue, ast.Break))

    def control(self, node, fn, bind=None, _depth=0, _seen=None):
        """Access paths the execution of `node` depends on: atoms of its
        guards; for guard operands that are local flags, also the guards of
        the assignments to those flags (transitively)."""
        _seen = _seen if _seen is not None else set()
        out = set()
        tests = list(self.guards(node, fn))
        if _depth == 0:
            # control dependence through early exits (`for x in xs: if p(x):
            # return` before the node): the loop and the test decide too
            have = {id(t) for t in tests}
            for t in self.cfg_tests(node, fn):
                if id(t) not in have:
                    tests.append(t)
        for t in tests:
            out |= self.flow.atoms(t, fn, bind)
            if _depth < 1:
                for c in ast.walk(t):
                    if isinstance(c, ast.Call):
                        callee = self.flow.resolve_call(c, fn)
                        if callee is not None and callee is not fn:
                            b = self.flow._bind_args(c, callee, fn, bind, 0,
                                                     set())
                            out |= self.return_control(callee, b,
                                                       _depth + 1)
            if _depth < 4:
                for nm in ast.walk(t):
                    if isinstance(nm, ast.Name) and isinstance(
                            nm.ctx, ast.Load) and (nm.id, fn.fq) not in \
                            _seen:
                        _seen.add((nm.id, fn.fq))
                        for d in self._def_sites(nm.id, fn):
                            out |= self.control(d, fn, bind, _depth + 1,
                                                _seen)
                            # flag = helper(..): what decides the value the
                            # helper returns
                            v = getattr(d, 'value', None)
                            # flag = X if test else Y: the test decides
                            if v is not None:
                                for ie in ast.walk(v):
                                    if isinstance(ie, ast.IfExp):
                                        out |= self.flow.atoms(ie.test, fn,
                                                               bind)
                            vcalls = []
                            if isinstance(v, ast.Call):
                                vcalls = [v]
                            elif isinstance(v, (ast.ListComp,
                                                ast.GeneratorExp)) and \
                                    isinstance(v.elt, ast.Call):
                                # flags = [helper(x) for x in xs]; any(flags)
                                vcalls = [v.elt]
                            for vc in vcalls if _depth < 2 else []:
                                callee = self.flow.resolve_call(vc, fn)
                                if callee is not None and callee is not fn:
                                    b = self.flow._bind_args(
                                        vc, callee, fn, bind, 0, set())
                                    out |= self.return_control(
                                        callee, b, _depth + 1)
                                    if vc is not v:
                                        # what the helper's result is made of
                                        for r_ in self.flow._returns(callee):
                                            out |= self.flow.atoms(
                                                r_, callee, b)
                        out |= self._unpacked_flag_control(nm.id, fn, bind,
                                                           _depth, _seen)
        return out

    def _unpacked_flag_control(self, name, fn, bind, _depth, _seen):
        """`a, flag = helper(..)`: what decides the value of the flag inside
        the helper (the control of the assignments to the returned local)."""
        out = set()
        for n in walk_no_nested(fn.node):
            if not (isinstance(n, ast.Assign) and isinstance(
                    n.value, ast.Call) and len(n.targets) == 1 and
                    isinstance(n.targets[0], ast.Tuple)):
                continue
            idx = [i for i, t in enumerate(n.targets[0].elts)
                   if isinstance(t, ast.Name) and t.id == name]
            if not idx:
                continue
            callee = self.flow.resolve_call(n.value, fn)
            if callee is None or callee is fn:
                continue
            b = self.flow._bind_args(n.value, callee, fn, bind, 0, set())
            out |= self.control(n, fn, bind, _depth + 1, _seen)
            for r in Q.returns(callee.node):
                if isinstance(r.value, ast.Tuple) and idx[0] < len(
                        r.value.elts):
                    el = r.value.elts[idx[0]]
                    out |= self.flow.atoms(el, callee, b)
                    if _depth < 3:
                        # which return is taken decides the flag, too
                        out |= self.control(r, callee, b, _depth + 1, _seen)
                    if isinstance(el, ast.Name) and _depth < 3:
                        for d in self._def_sites(el.id, callee):
                            out |= self.control(d, callee, b, _depth + 1,
                                                _seen)
        return out

    def cfg_tests(self, node, fn):
        """Test / iterator expressions of the branching statements `node`
        is (transitively) control dependent on in fn's CFG."""
        try:
            g = self.cfg(fn)
            st = g.stmt_of(node)
            deps = g.control_deps(st)
        except Exception:
            return []
        out = []
        for b in deps:
            out.append(b.iter if isinstance(b, (ast.For, ast.AsyncFor))
                       else b.test)
        return out

    def return_control(self, fn, bind=None, _depth=0):
        """Access paths deciding *which* value fn returns: control of every
        return statement plus the tests of conditional expressions inside
        the returned expressions."""
        key = (fn.fq, self.flow._bkey(bind), _depth)
        memo = self.__dict__.setdefault('_rc_memo', {})
        if key in memo:
            return set(memo[key])
        memo[key] = frozenset()          # cycle guard
        out = set()
        for r in Q.returns(fn.node):
            out |= self.control(r, fn, bind, _depth)
            if r.value is not None:
                for n in ast.walk(r.value):
                    if isinstance(n, ast.IfExp):
                        out |= self.flow.atoms(n.test, fn, bind)
        memo[key] = frozenset(out)
        return out

    def _def_sites(self, name, fn):
        out = []
        for n in walk_no_nested(fn.node):
            if isinstance(n, ast.Assign) and any(
                    isinstance(t, ast.Name) and t.id == name
                    for t in n.targets):
                out.append(n)
            elif isinstance(n, ast.AugAssign) and isinstance(
                    n.target, ast.Name) and n.target.id == name:
                out.append(n)
        return out

    def withs(self, node, fn, bind=None):
        out = set()
        n = node
        while n is not None and n is not fn.node:
            p = getattr(n, '_parent', None)
            if isinstance(p, (ast.With, ast.AsyncWith)) and n in p.body:
                for it in p.items:
                    out |= self.flow.atoms(it.context_expr, fn, bind)
            n = p
        return out

    _INV = {'Eq': 'NotEq', 'NotEq': 'Eq', 'Is': 'IsNot', 'IsNot': 'Is',
            'In': 'NotIn', 'NotIn': 'In', 'Lt': 'GtE', 'GtE': 'Lt',
            'Gt': 'LtE', 'LtE': 'Gt'}

    def _predicate_body(self, call, fn, bind):
        """(expr, callee, bind) when `call` invokes a repository predicate
        whose body is a single `return <expr>`."""
        callee = self.flow.resolve_call(call, fn)
        if callee is None:
            return None
        e = self._predicate_expr(callee)
        if e is not None:
            b = self.flow._bind_args(call, callee, fn, bind, 0, set())
            return e, callee, b
        return None

    def _predicate_expr(self, callee):
        """The single boolean expression a predicate function computes: its
        `return <expr>`, with leading `if T: return True` / `if T: return
        False` statements folded in as `T or ...` / `not T and ...` (the
        early-return spelling of the same expression)."""
        memo = self.__dict__.setdefault('_pe_memo', {})
        if callee.fq in memo:
            return memo[callee.fq]
        body = [st for st in callee.node.body
                if not (isinstance(st, ast.Expr) and isinstance(
                    st.value, ast.Constant))]
        expr = None
        if body and isinstance(body[-1], ast.Return) and \
                body[-1].value is not None:
            expr = body[-1].value
            for st in reversed(body[:-1]):
                if isinstance(st, ast.Assign) and all(
                        isinstance(x, ast.Name) for t in st.targets
                        for x in (t.elts if isinstance(t, ast.Tuple)
                                  else [t])):
                    continue             # a named temporary
                if isinstance(st, (ast.FunctionDef, ast.Import,
                                   ast.ImportFrom)):
                    continue             # a local helper / import
                ok = isinstance(st, ast.If) and not st.orelse and len(
                    st.body) == 1 and isinstance(st.body[0], ast.Return) \
                    and isinstance(st.body[0].value, ast.Constant) and \
                    isinstance(st.body[0].value.value, bool)
                if not ok:
                    expr = None
                    break
                if st.body[0].value.value:
                    new = ast.BoolOp(op=ast.Or(), values=[st.test, expr])
                else:
                    new = ast.BoolOp(op=ast.And(), values=[
                        ast.UnaryOp(op=ast.Not(), operand=st.test), expr])
                expr = ast.copy_location(new, st)
        memo[callee.fq] = expr
        return expr

    def _known_compares(self, t, pos, out, fn=None, bind=None, _d=0):
        """Comparisons whose truth value is known when test t has truth
        value `pos` (looking through `not`, and/or where sound, and
        single-expression predicate helpers)."""
        if isinstance(t, ast.UnaryOp) and isinstance(t.op, ast.Not):
            self._known_compares(t.operand, not pos, out, fn, bind, _d)
        elif isinstance(t, ast.BoolOp):
            if isinstance(t.op, ast.And) == pos:
                for v in t.values:
                    self._known_compares(v, pos, out, fn, bind, _d)
        elif isinstance(t, ast.Compare) and len(t.ops) == 1:
            out.append((t, pos, fn, bind))
        elif isinstance(t, ast.Name) and fn is not None and _d < 3:
            ds = self.flow.defs(fn.node).get(t.id)
            if ds and len(ds) == 1 and ds[0][0] == 'value' and \
                    t.id not in Q.params(fn.node):
                self._known_compares(ds[0][1], pos, out, fn, bind, _d + 1)
        elif isinstance(t, ast.Call) and fn is not None and _d < 2:
            pb = self._predicate_body(t, fn, bind)
            if pb is not None:
                self._known_compares(pb[0], pos, out, pb[1], pb[2], _d + 1)

    def checker_guards(self, node, fn, bind=None):
        """Conditions known to be false when `node` executes because an
        earlier statement of an enclosing block called a repository
        "checker" -- a function that raises under a single condition and
        otherwise returns nothing: [(test, False, callee, callee bind)]."""
        out = []
        n = node
        while n is not None and n is not fn.node:
            p = getattr(n, '_parent', None)
            for field in ('body', 'orelse', 'finalbody'):
                blk = getattr(p, field, None)
                if isinstance(blk, list) and any(n is x for x in blk):
                    for st in blk[:[id(x) for x in blk].index(id(n))]:
                        if isinstance(st, ast.Expr) and isinstance(
                                st.value, ast.Call):
                            callee = self.flow.resolve_call(st.value, fn)
                            if callee is None:
                                continue
                            if any(r.value is not None
                                   for r in Q.returns(callee.node)):
                                continue
                            b = self.flow._bind_args(st.value, callee, fn,
                                                     bind, 0, set())
                            # raises in source order: a raise guarded by
                            # tests already known (the earlier raises did
                            # not fire) plus one more establishes the
                            # negation of that one
                            known = set()
                            for r in sorted(
                                    (x for x in walk_no_nested(callee.node)
                                     if isinstance(x, ast.Raise)),
                                    key=lambda x: (x.lineno, x.col_offset)):
                                if True:
                                    gs = [g for g in self.guards_pol(
                                        r, callee)
                                        if (id(g[0]), g[1]) not in known]
                                    if len(gs) == 1:
                                        out.append((gs[0][0], not gs[0][1],
                                                    callee, b))
                                        known.add((id(gs[0][0]),
                                                   not gs[0][1]))
            n = p
        return out

    def guard_leaves(self, node, fn, bind=None):
        """(leaf test, truth, fn, bind) known when `node` executes: guards
        (including those established by checker calls) with `not` stripped,
        and/or split where sound, single-definition flag locals followed."""
        out = []

        def leaves(t, pos, f_, b_, d=0):
            if isinstance(t, ast.UnaryOp) and isinstance(t.op, ast.Not):
                leaves(t.operand, not pos, f_, b_, d)
            elif isinstance(t, ast.BoolOp):
                if isinstance(t.op, ast.And) == pos:
                    for v in t.values:
                        leaves(v, pos, f_, b_, d)
                else:
                    out.append((t, pos, f_, b_))
            elif isinstance(t, ast.Name) and d < 3:
                ds = self.flow.defs(f_.node).get(t.id)
                if ds and len(ds) == 1 and ds[0][0] == 'value' and \
                        t.id not in Q.params(f_.node):
                    leaves(ds[0][1], pos, f_, b_, d + 1)
                else:
                    out.append((t, pos, f_, b_))
            else:
                out.append((t, pos, f_, b_))
                if isinstance(t, ast.Call) and d < 2:
                    # a repository predicate: also what its body tests
                    pb = self._predicate_body(t, f_, b_)
                    if pb is not None:
                        leaves(pb[0], pos, pb[1], pb[2], d + 1)
        for t, pos in self.guards_pol(node, fn):
            leaves(t, pos, fn, bind)
        for t, pos, f_, b_ in self.checker_guards(node, fn, bind):
            leaves(t, pos, f_, b_)
        ys = self._yield_site(bind)
        if ys is not None and ys[0] is not node:
            out += self.guard_leaves(ys[0], ys[1], ys[2])
        return out

    def guard_truths(self, node, fn):
        """(leaf test expression, truth value) known when `node` executes:
        guards with `not` stripped and and/or split where that is sound."""
        out = []

        def leaves(t, pos):
            if isinstance(t, ast.UnaryOp) and isinstance(t.op, ast.Not):
                leaves(t.operand, not pos)
            elif isinstance(t, ast.BoolOp):
                if isinstance(t.op, ast.And) == pos:
                    for v in t.values:
                        leaves(v, pos)
                else:
                    out.append((t, pos))
            else:
                out.append((t, pos))
        for t, pos in self.guards_pol(node, fn):
            leaves(t, pos)
        return out

    def _failed_lookups(self, node, fn):
        """Subscript expressions X[k] whose lookup is known to have raised
        KeyError when `node` executes: `node` is in the `except KeyError`
        handler of a try whose body holds that single lookup, or follows
        such a try whose body ends in `return` (the try/except spelling of
        `if k in X: return X[k]`)."""
        out = []

        def catches_keyerror(h):
            if h.type is None:
                return False
            return any(isinstance(x, ast.Name) and x.id in (
                'KeyError', 'LookupError') for x in ast.walk(h.type))

        def single_lookup(tr):
            subs = [x for st in tr.body for x in ast.walk(st)
                    if isinstance(x, ast.Subscript) and isinstance(
                        x.ctx, ast.Load)]
            calls = [x for st in tr.body for x in ast.walk(st)
                     if isinstance(x, ast.Call)]
            return subs[0] if len(subs) == 1 and not calls else None
        n = node
        while n is not None and n is not fn.node:
            p = getattr(n, '_parent', None)
            if isinstance(p, ast.ExceptHandler) and catches_keyerror(p):
                tr = getattr(p, '_parent', None)
                if isinstance(tr, ast.Try):
                    s_ = single_lookup(tr)
                    if s_ is not None:
                        out.append(s_)
            for field in ('body', 'orelse', 'finalbody'):
                blk = getattr(p, field, None)
                if isinstance(blk, list) and any(n is x for x in blk):
                    for st in blk[:[id(x) for x in blk].index(id(n))]:
                        if isinstance(st, ast.Try) and st.body and \
                                isinstance(st.body[-1], ast.Return) and \
                                not st.orelse and not st.finalbody and all(
                                    catches_keyerror(h) and not any(
                                        isinstance(x, (ast.Return,
                                                       ast.Raise))
                                        for b_ in h.body
                                        for x in ast.walk(b_))
                                    for h in st.handlers):
                            s_ = single_lookup(st)
                            if s_ is not None:
                                out.append(s_)
            n = p
        return out

    def guard_compares(self, node, fn, bind=None):
        """(operator, left atoms, right atoms) of the comparisons known to
        hold when `node` executes (operators of guards that were false are
        inverted: after `if x != A: continue`, `x == A` holds; a lookup
        that raised KeyError is `k not in X`)."""
        out = []
        ys = self._yield_site(bind)
        if ys is not None and ys[0] is not node:
            out += self.guard_compares(ys[0], ys[1], ys[2])
        for s_ in self._failed_lookups(node, fn):
            out.append(('NotIn', self.flow.atoms(s_.slice, fn, bind),
                        self.flow.atoms(s_.value, fn, bind)))
        todo = [(t, pos, fn, bind) for t, pos in self.guards_pol(node, fn)]
        todo += self.checker_guards(node, fn, bind)
        for t, pos, tf, tb in todo:
            cs = []
            self._known_compares(t, pos, cs, tf, tb)
            for c, p, f_, b_ in cs:
                op = type(c.ops[0]).__name__
                if not p:
                    op = self._INV.get(op, 'Not' + op)
                out.append((op, self.flow.atoms(c.left, f_, b_),
                            self.flow.atoms(c.comparators[0], f_, b_)))
        return out

    def stores(self, fn, bind=None):
        """(target atoms, value atoms, node) of every assignment in fn whose
        target is an attribute or subscript (a store into an object)."""
        out = []
        bind0 = bind
        for n in walk_no_nested(fn.node):
            tv = []
            if isinstance(n, ast.Assign):
                tv = [(t, n.value) for t in n.targets]
            elif isinstance(n, (ast.AugAssign, ast.AnnAssign)) and \
                    n.value is not None:
                tv = [(n.target, n.value)]
            for t, v in tv:
                if isinstance(t, (ast.Attribute, ast.Subscript)):
                    for bind in self.spec_binds(n, fn, bind0):
                        out.append((self.flow.atoms(t, fn, bind),
                                    self.flow.atoms(v, fn, bind), n))
            bind = bind0
            if isinstance(n, ast.Call) and isinstance(n.func, ast.Name) \
                    and n.func.id == 'setattr' and len(n.args) == 3:
                names = self.flow.const_keys(n.args[1], fn, bind)
                if names:
                    base = self.flow.atoms(n.args[0], fn, bind)
                    tg = set()
                    for b_ in base:
                        if b_.startswith(('const:', 'key:', 'via:',
                                          'alloc:')):
                            continue
                        b_ = b_[6:] if b_.startswith('param:') else b_
                        for nm in names:
                            tg.add('{}.{}'.format(b_, nm))
                    out.append((tg, self.flow.atoms(n.args[2], fn, bind),
                                n))
        return out

    def _dom_candidates(self, fn, node):
        """Statements standing for `node` in dominance questions: its own
        statement and every enclosing loop statement (a loop that may run
        zero times still counts as "the step that does it for every
        element")."""
        g = self.cfg(fn)
        out = []
        try:
            out.append(g.stmt_of(node))
        except Exception:
            pass
        n = node
        while n is not None and n is not fn.node:
            n = getattr(n, '_parent', None)
            if isinstance(n, (ast.For, ast.While)) and n in g.succ:
                out.append(n)
        return out

    def always_before(self, a, b):
        """Effect `a` is performed on every path that reaches effect `b`
        (both found from the same analysed function; compared in the
        innermost function their call paths share)."""
        i = 0
        while i < len(a.path) - 1 and i < len(b.path) - 1 and \
                a.path[i][1] is b.path[i][1]:
            i += 1
        fa, na = a.path[i]
        fb, nb = b.path[i]
        if fa is not fb:
            return False
        g = self.cfg(fa)
        try:
            tb = g.stmt_of(nb)
        except Exception:
            return False
        # `na` is (inside) an argument of the call `nb`: arguments are
        # evaluated before the call is made (unless under a conditional
        # expression / short-circuit operator in between)
        if isinstance(nb, ast.Call) and na is not nb:
            n, cond = na, False
            while n is not None and n is not nb and n is not fa.node:
                p = getattr(n, '_parent', None)
                if isinstance(p, (ast.IfExp, ast.BoolOp, ast.Lambda,
                                  ast.ListComp, ast.GeneratorExp,
                                  ast.SetComp, ast.DictComp)):
                    cond = True
                n = p
            if n is nb and not cond and not any(
                    x is na for x in ast.walk(nb.func)):
                return True
        for c in self._dom_candidates(fa, na):
            if c is not tb and g.dominates(c, tb):
                return True
        return False

    def only_called_from(self, fn, allowed, _depth=0):
        """fn is one of `allowed` (fq names), or a private helper all of
        whose callers satisfy this recursively."""
        if fn is None:
            return False
        if fn.fq in allowed:
            return True
        name = fn.node.name
        if _depth > 3 or not name.startswith('_') or (
                name.startswith('__') and name.endswith('__')):
            return False
        callers = Q.find_callers(self.repo, fn, by_name_ok=False)
        if not callers:
            return False
        return all(self.only_called_from(self.repo.enclosing_func(c),
                                         allowed, _depth + 1)
                   for m, c, exact in callers)

    def context_manager(self, fn):
        """Phases of a context-manager function, in either spelling:

        * a generator (`@contextmanager`): effects that dominate the
          `yield`, effects in a `finally` around it, the yielded value;
        * a function returning `Cls(args)` where Cls defines __enter__ /
          __exit__: the unconditional effects of those methods, analysed
          for an instance whose fields are what __init__ stores from the
          constructor arguments; the value __enter__ returns.

        Returns None when fn is neither, else a dict with `enter`
        (effects), `exit` (effects on every exit), `value` (atoms)."""
        ys = [n for n in walk_no_nested(fn.node)
              if isinstance(n, (ast.Yield, ast.YieldFrom))]
        if ys:
            enter, exit_, value = [], [], set()
            effs = self.effects(fn, lambda e: True, depth=1)
            g = self.cfg(fn)
            for e in effs:
                top = e.path[0][1]
                try:
                    st = g.stmt_of(top)
                except Exception:
                    continue
                if all(st is not g.stmt_of(y) and g.dominates(
                        st, g.stmt_of(y)) for y in ys):
                    enter.append(e)
                n = top
                while n is not None and n is not fn.node:
                    p = getattr(n, '_parent', None)
                    if isinstance(p, ast.Try) and any(
                            n is s_ for s_ in p.finalbody) and any(
                                isinstance(x, (ast.Yield, ast.YieldFrom))
                                for b_ in p.body for x in ast.walk(b_)):
                        exit_.append(e)
                        break
                    n = p
            for y in ys:
                if y.value is not None:
                    value |= self.flow.atoms(y.value, fn)
            return {'enter': enter, 'exit': exit_, 'value': value,
                    'form': 'generator'}
        rets = [r.value for r in Q.returns(fn.node) if r.value is not None]
        if not rets or not all(isinstance(r, ast.Call) for r in rets):
            return None
        enter, exit_, value = [], [], set()
        for r in rets:
            try:
                res = self.repo.resolve_expr(fn.module, r.func,
                                             self.repo.local_scope(fn))
            except Exception:
                res = None
            if (res is None or res[0] != 'class') and isinstance(
                    r.func, ast.Attribute) and isinstance(
                        r.func.value, ast.Name) and r.func.value.id in (
                            'self', 'cls') and fn.cls is not None:
                # a class nested in (or aliased as an attribute of) the
                # method's own class
                nested = self.repo.classes.get(
                    fn.cls.fq + '.' + r.func.attr)
                if nested is not None:
                    res = ('class', nested)
                else:
                    o_, v_ = fn.cls.find_attr(r.func.attr)
                    if isinstance(v_, (ast.Name, ast.Attribute)):
                        try:
                            res = self.repo.resolve_expr(fn.module, v_, None)
                        except Exception:
                            res = None
            if res is None or res[0] != 'class':
                return None
            ci = res[1]
            o1, en = ci.find_method('__enter__')
            o2, ex = ci.find_method('__exit__')
            o3, init = ci.find_method('__init__')
            if en is None or ex is None:
                return None
            inst = {'self': {self.flow._alloc(r, fn)}}
            if init is not None:
                # constructor call: arguments bind to the parameters
                # after `self`
                ib = {}
                ps = [a.arg for a in init.args.posonlyargs + init.args.args]
                ps = ps[1:] if ps else ps
                for i_, a in enumerate(r.args):
                    if isinstance(a, ast.Starred) or i_ >= len(ps):
                        break
                    ib[ps[i_]] = self.flow.atoms(a, fn)
                for k in r.keywords:
                    if k.arg:
                        ib[k.arg] = self.flow.atoms(k.value, fn)
                for t, v, n in self.stores(init._func, ib):
                    for a in t:
                        m = re.match(r'^self\.([A-Za-z_][A-Za-z_0-9]*)$', a)
                        if m:
                            inst.setdefault('.' + m.group(1), set()).update(v)
            for meth, sink in ((en, enter), (ex, exit_)):
                out = []
                self._effects(meth._func, dict(inst), lambda e: True, 1, (),
                              set(), out, frozenset(), frozenset(), ())
                sink += [e for e in out
                         if not self.guards(e.path[0][1], meth._func)]
            for rr in Q.returns(en):
                if rr.value is not None:
                    value |= self.flow.atoms(rr.value, en._func, dict(inst))
        return {'enter': enter, 'exit': exit_, 'value': value,
                'form': 'class'}

    def before(self, fn, pred, node, depth=2):
        """Some statement of fn that performs an effect matching pred
        (directly, or in a helper that must perform it) dominates the
        statement of `node`."""
        g = self.cfg(fn)
        tgt = g.stmt_of(node)
        for c in Q.calls(fn.node, nested=False):
            ok = pred(Effect(c, fn, None, (), self))
            if not ok and depth > 0:
                callee = self.flow.resolve_call(c, fn)
                if callee is not None:
                    ok = self.must(callee, pred, depth - 1)
            if ok:
                for st in self._dom_candidates(fn, c):
                    if st is not tgt and g.dominates(st, tgt):
                        return True
        return False

    # -- path facts ----------------------------------------------------------
    def cfg(self, fn):
        k = id(fn.node)
        if k not in self._cfg:
            self._cfg[k] = build_cfg(fn.node)
        return self._cfg[k]

    def must(self, fn, pred, depth=3, _stack=None):
        """Every normal (non-raising) path through fn performs a call with
        pred(Effect) true, directly or inside a helper that itself must."""
        _stack = _stack or set()
        if fn.fq in _stack:
            return False
        _stack = _stack | {fn.fq}
        g = self.cfg(fn)
        stmts = set()
        for c in Q.calls(fn.node, nested=False):
            ok = pred(Effect(c, fn, None, (), self))
            if not ok and depth > 0:
                callee = self.flow.resolve_call(c, fn)
                if callee is not None:
                    ok = self.must(callee, pred, depth - 1, _stack)
            if ok:
                try:
                    stmts.add(g.stmt_of(c))
                except Exception:
                    pass
        if not stmts:
            return False
        return g.must_pass(stmts, EXIT)

    def dominated_by(self, fn, node, pred_stmt):
        """Every path from entry to `node`'s statement passes a statement s
        with pred_stmt(s) true."""
        g = self.cfg(fn)
        tgt = g.stmt_of(node)
        doms = [s for s in g.succ if isinstance(s, ast.AST) and pred_stmt(s)]
        return any(g.dominates(d, tgt) for d in doms if d is not tgt)
