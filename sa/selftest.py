"""Checker self-test (thorough tier): mutants must be reported, neutral twins
must stay silent.

Each catalogue entry edits one file of a scratch copy of /repo/bfg9000 (under
$TMPDIR, outside /repo and /verif, removed immediately), compiles it, and
re-runs the property's rules on the copy *statically* (the copy is parsed,
never imported or executed). A missed mutant or a noisy twin means the
checker is wrong -> ANALYSIS-ERROR (exit 2), never a VIOLATION of the repo.
"""
import multiprocessing
import os
import shutil
import sys
import tempfile
import traceback

from .index import AnalysisError, Repo
from .report import Ctx, load_known


def _make_scratch(src_root):
    d = tempfile.mkdtemp(prefix='bfg_sa_selftest_')
    shutil.copytree(os.path.join(src_root, 'bfg9000'),
                    os.path.join(d, 'bfg9000'),
                    ignore=shutil.ignore_patterns('__pycache__', '*.pyc'))
    return d


def _analyse(root, prop):
    import importlib
    from .advisory import ADVISORY
    repo = Repo(root)
    ctx = Ctx(prop, 'quick', repo)
    mod = importlib.import_module('sa.props.' + prop.lower())
    mod.check(ctx)
    known = [k for k in load_known() if k['property'] == prop]
    bad = []
    for o in ctx.obligations:
        if o.ok:
            continue
        if any(k['rule'] == o.rule and k['key'] == o.key for k in known):
            continue
        if (o.rule, o.key) in ADVISORY:
            continue            # reported, but not part of the claim
        bad.append((o.rule, o.key, o.site, o.detail))
    return bad


def _run_variant(args):
    src_root, prop, v = args
    d = _make_scratch(src_root)
    try:
        path = os.path.join(d, v['file'])
        with open(path, encoding='utf-8') as f:
            src = f.read()
        edits = v.get('edits') or [(v['old'], v['new'])]
        new = src
        for old, rep in edits:
            if new.count(old) != v.get('count', 1):
                return (v['id'], 'stale', 'anchor text occurs {} times in {}'
                        .format(new.count(old), v['file']))
            new = new.replace(old, rep)
        try:
            compile(new, path, 'exec')
        except SyntaxError as e:
            return (v['id'], 'stale', 'variant does not compile: {}'.format(e))
        with open(path, 'w', encoding='utf-8') as f:
            f.write(new)
        try:
            bad = _analyse(d, prop)
        except AnalysisError as e:
            return (v['id'], 'analysis-error', str(e))
        except Exception:
            return (v['id'], 'crash', traceback.format_exc()[-600:])
        return (v['id'], 'ran', bad)
    finally:
        shutil.rmtree(d, ignore_errors=True)


def run_for_property(prop, ctx, src_root='/repo'):
    from .selftest_catalogue import CATALOGUE
    variants = [v for v in CATALOGUE if prop in v['props']]
    if not variants:
        return {'selftest': 'no variants catalogued for ' + prop}
    jobs = [(src_root, prop, v) for v in variants]
    nproc = min(16, len(jobs), (os.cpu_count() or 2))
    with multiprocessing.Pool(nproc) as pool:
        results = pool.map(_run_variant, jobs)
    by_id = {v['id']: v for v in variants}
    problems = []
    detected = silent = mutants = twins = 0
    details = []
    for vid, status, payload in results:
        v = by_id[vid]
        kind = v['kind']
        if kind == 'mutant':
            mutants += 1
        else:
            twins += 1
        if status == 'stale':
            problems.append('{}: catalogue entry is stale ({})'.format(
                vid, payload))
            continue
        if status in ('crash',):
            problems.append('{}: checker crashed: {}'.format(vid, payload))
            continue
        if status == 'analysis-error':
            if kind == 'twin' or not v.get('analysis_error_ok'):
                problems.append('{} ({}): ANALYSIS-ERROR: {}'.format(
                    vid, kind, payload))
            else:
                detected += 1
            continue
        bad = payload
        if kind == 'mutant':
            want = v.get('expect')
            if isinstance(want, dict):
                want = want.get(prop)
            hit = [b for b in bad if want is None or want in b[0] or
                   want in b[1]]
            if hit:
                detected += 1
                details.append({'variant': vid, 'kind': kind,
                                'reported': hit[0][0] + ' ' + hit[0][1]})
            else:
                problems.append(
                    '{}: mutant NOT reported (expected rule/key containing '
                    '{!r}; got {})'.format(vid, want, [b[:2] for b in bad]))
        else:
            if bad:
                problems.append('{}: neutral twin raised {}'.format(
                    vid, [b[:2] for b in bad]))
            else:
                silent += 1
    extra = {
        'selftest': {
            'mutants_total': mutants, 'mutants_detected': detected,
            'twins_total': twins, 'twins_silent': silent,
            'samples': details[:25],
        }
    }
    if problems:
        for p in problems:
            print('SELFTEST-PROBLEM ' + p)
        raise AnalysisError('checker self-test failed for {}: {} problem(s)'
                            .format(prop, len(problems)))
    print('{} self-test: {}/{} mutants reported, {}/{} twins silent'.format(
        prop, detected, mutants, silent, twins))
    return extra


def main():
    """python -m sa.selftest [PROP ...] -- run the catalogue stand-alone."""
    from .selftest_catalogue import CATALOGUE
    props = sys.argv[1:] or sorted({p for v in CATALOGUE for p in v['props']})
    rc = 0
    for p in props:
        try:
            run_for_property(p, None)
        except AnalysisError as e:
            print('FAIL', e)
            rc = 2
    return rc


if __name__ == '__main__':
    sys.exit(main())
