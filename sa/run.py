"""CLI: /venv/bin/python -m sa.run --property C05 --tier quick

exit 0  every rule instance holds (or is a listed known finding)
exit 1  VIOLATION property=<id> replay=<path>
exit 2  ANALYSIS-ERROR: the checker could not establish its own preconditions
"""
import argparse
import importlib
import os
import sys
import traceback

from .index import AnalysisError, Repo
from .report import Ctx


def main(argv=None):
    ap = argparse.ArgumentParser()
    ap.add_argument('--property', required=True)
    ap.add_argument('--tier', default=os.environ.get('VERIF_TIER', 'quick'),
                    choices=['quick', 'thorough'])
    ap.add_argument('--repo', default=os.environ.get('VERIF_REPO', '/repo'))
    ap.add_argument('--no-selftest', action='store_true')
    args = ap.parse_args(argv)
    prop = args.property.upper()
    try:
        seed = int(os.environ.get('VERIF_SEED', '0'))
    except ValueError:
        seed = 0
    try:
        repo = Repo(args.repo)
        ctx = Ctx(prop, args.tier, repo, seed)
        ctx.assume('host platform family folded to posix in platform-'
                   'conditional constants')
        ctx.assume('reader-side lexical tables (GNU Make, Ninja, POSIX sh, '
                   'pkg-config, GCC options) in sa/tables.py are trusted')
        mod = importlib.import_module('sa.props.' + prop.lower())
        mod.check(ctx)
        extra = None
        if args.tier == 'thorough':
            if hasattr(mod, 'thorough'):
                mod.thorough(ctx)
            if not args.no_selftest and args.repo == '/repo':
                from . import audit, corpus, selftest
                extra = selftest.run_for_property(prop, ctx) or {}
                extra.update(audit.run_for_property(prop))
                extra.update(corpus.run_for_property(prop))
        rc = ctx.finish(extra)
    except AnalysisError as e:
        print('ANALYSIS-ERROR property={}: {}'.format(prop, e))
        return 2
    except Exception:
        traceback.print_exc()
        print('ANALYSIS-ERROR property={}: internal error in checker'
              .format(prop))
        return 2
    return rc


if __name__ == '__main__':
    sys.exit(main())
