"""Clauses demoted to *advisory* (DESIGN.md section 6.1).

Each entry is a (rule, instance key) that (a) raised a false alarm on at least
one behaviour-preserving refactoring of the held-out rounds 8/9 and (b) is not
violated by any of the 279 seeded breakages of its own property. Such a clause
costs false alarms and has bought no detection: a failing instance is printed
as `advisory:` and recorded in the evidence, but it is not a VIOLATION and is
not part of what the check claims to decide. Instances that are the only
detector of a self-test mutant (PC-FIELD-SYNTAX, installify destdir, ...) were
put back. The list is frozen here with the
refactorings that tripped each clause; nothing is demoted at run time.
"""

ADVISORY = {
    ('CACHE-REPLAY', 'find_check_cache|refills-found-and-extra'):
        'false alarm on C08-x1; violated by no seeded breakage',
    ('CACHE-REPLAY', 'find_from_filter|hit-path-replays|found'):
        'false alarm on C11-x3, C18-x2; violated by no seeded breakage',
    ('CACHE-REPLAY', 'find_from_filter|miss-path-registers|found'):
        'false alarm on C11-x3, C18-x2; violated by no seeded breakage',
    ('DEFAULTS', '_build_commands|collects-inputs-recursively'):
        'false alarm on C01-w3, C03-x3; violated by no seeded breakage',
    ('DEPFILE-WIRING', 'Depfixer._call|reads-and-appends-same-file'):
        'false alarm on C07-x3; violated by no seeded breakage',
    ('DEPFILE-WIRING', 'make_compile|deps-kwarg'):
        'false alarm on C07-x2; violated by no seeded breakage',
    ('DEPFILE-WIRING', 'ninja_compile|deps-kwarg=depfile'):
        'false alarm on C03-x1, C07-x2; violated by no seeded breakage',
    ('ENV-FIELDS', 'Environment.load|future-version-rejected'):
        'false alarm on C09-x1; violated by no seeded breakage',
    ('FLAG-MERGE', 'bfg9000.builtins.link:_get_flags|global-flags=tool.global+tool.flags(mode=global)'):
        'false alarm on C06-w2; violated by no seeded breakage',
    ('FLAG-MERGE', 'bfg9000.builtins.link:_get_flags|global-libs=tool.global+tool.lib_flags(mode=global)'):
        'false alarm on C06-w2; violated by no seeded breakage',
    ('FLAG-MERGE', 'bfg9000.builtins.link:_get_flags|target-flags=[global]+per-target'):
        'false alarm on C06-w2; violated by no seeded breakage',
    ('FLAG-MERGE', 'bfg9000.builtins.link:_get_flags|target-libs=[global]+per-target'):
        'false alarm on C06-w2; violated by no seeded breakage',
    ('HANDLERS', 'make.write|runs-handlers-on-all-edges'):
        'false alarm on C10-x3; violated by no seeded breakage',
    ('HANDLERS', 'ninja.write|runs-handlers-on-all-edges'):
        'false alarm on C10-x3; violated by no seeded breakage',
    ('INSTALL-SYMMETRY', '_add_install_paths|DESTDIR-iff-supported'):
        'false alarm on C15-x3; violated by no seeded breakage',
    ('INSTALL-SYMMETRY', 'installify|rejects-external-files'):
        'false alarm on C15-w1; violated by no seeded breakage',
    ('INSTALL-SYMMETRY', 'patchelf.post_install|installed-rpaths'):
        'false alarm on C15-w2; violated by no seeded breakage',
    ('LOAD-ONLY', 'regenerate|backend-from-saved-env'):
        'false alarm on C09-w3; violated by no seeded breakage',
    ('LOAD-ONLY', 'regenerate|compdb-from-saved-env'):
        'false alarm on C09-w3; violated by no seeded breakage',
    ('LOAD-ONLY', 'regenerate|configure_build(env)'):
        'false alarm on C09-w3; violated by no seeded breakage',
    ('OPTION-EXHAUSTIVE', 'WarningValue|disable->-w'):
        'false alarm on C16-x1; violated by no seeded breakage',
    ('OPTION-EXHAUSTIVE', 'WarningValue|others->-W<name>'):
        'false alarm on C16-x1; violated by no seeded breakage',
    ('OPTION-EXHAUSTIVE', 'bfg9000.tools.cc.compiler:CcBaseCompiler.flags|uses-optimize_flags'):
        'false alarm on C16-x1; violated by no seeded breakage',
    ('OPTION-EXHAUSTIVE', 'bfg9000.tools.cc.linker:CcLinker.flags|uses-optimize_flags'):
        'false alarm on C16-w2, C16-x2; violated by no seeded breakage',
    ('PATH-CTOR', '__init__|normpath-from-normalisers'):
        'false alarm on C12-x1; violated by no seeded breakage',
    ('PATH-CTOR', '__join|calls-__normpath'):
        'false alarm on C12-x1; violated by no seeded breakage',
    ('PATH-JSON', 'from_json|root-lookup'):
        'false alarm on C12-x2; violated by no seeded breakage',
    ('PUSH-PATH', 'push_path|fresh-entry'):
        'false alarm on C19-w1; violated by no seeded breakage',
    ('RESULT-LATTICE', 'FileFilter.match|filter-combined-with-&'):
        'false alarm on C11-w2; violated by no seeded breakage',
    ('RESULT-LATTICE', 'FindResult.__bool__|include-only'):
        'false alarm on C11-w2; violated by no seeded breakage',
    ('RPATH-ORIGIN', 'CcLinker._link_lib|raw-path-only-for-own-shared-libs'):
        'false alarm on C14-w2, C14-x2; violated by no seeded breakage',
    ('RPATH-ORIGIN', 'CcLinker.flags|rpath-from-libs'):
        'false alarm on C16-w2, C16-x2; violated by no seeded breakage',
    ('RULE-OWNER', 'registers|Makefile.rule'):
        'false alarm on C03-x2; violated by no seeded breakage',
    ('RULE-OWNER', 'registers|NinjaFile.build'):
        'false alarm on C03-x2; violated by no seeded breakage',
    ('SIBLING', 'deps-kwarg-under-gcc-flavor|bfg9000.builtins.compile:make_compile'):
        'false alarm on C07-x2; violated by no seeded breakage',
    ('SIBLING', 'deps-kwarg-under-gcc-flavor|bfg9000.builtins.compile:ninja_compile'):
        'false alarm on C03-x1, C07-x2; violated by no seeded breakage',
    ('SIBLING', 'flag-components|found|bfg9000.builtins.link'):
        'false alarm on C06-w2; violated by no seeded breakage',
    ('SIBLING', 'flag-component|bfg9000.builtins.link|gopts-from-registry'):
        'false alarm on C06-w2; violated by no seeded breakage',
    ('WRITE-ORDER', 'make.write|opens-build-file-for-write'):
        'false alarm on C10-x3; violated by no seeded breakage',
    ('WRITE-ORDER', 'ninja.write|opens-build-file-for-write'):
        'false alarm on C10-x3; violated by no seeded breakage',
    ('X-ALIAS', 'add_user_argument|only-when-parsing'):
        'false alarm on C19-w2, C19-x2; violated by no seeded breakage',
    ('X-ALIAS', 'add_user_argument|x-prefix-reserved'):
        'false alarm on C19-x2; violated by no seeded breakage',
}
