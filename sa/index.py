"""Parse every module of /repo/bfg9000 and provide name/class resolution.

Stdlib only. The index is the "resolved program" all rules work on:
  * modules with their import tables (relative imports, aliases, star imports);
  * top-level definitions, classes with resolved bases and a linearised MRO;
  * functions/methods addressed by qualified name `pkg.mod:Class.method`;
  * parent pointers on every AST node.
A missing anchor raises AnalysisError (-> exit 2), never a silent pass.
"""
import ast
import hashlib
import os

PKG = 'bfg9000'


class AnalysisError(Exception):
    """The checker could not establish its own preconditions."""


class Module:
    def __init__(self, name, path, relpath, src, is_pkg):
        self.name = name
        self.path = path
        self.relpath = relpath
        self.src = src
        self.is_pkg = is_pkg
        try:
            self.tree = ast.parse(src, filename=path)
        except SyntaxError as e:  # pragma: no cover
            raise AnalysisError('cannot parse {}: {}'.format(path, e))
        self.unrolled = 0
        if not os.environ.get('SA_NO_NORMALIZE'):
            from .normalize import normalize
            self.unrolled = normalize(self.tree)
        self.imports = {}      # local name -> ('module', modname) |
        #                                      ('symbol', modname, symbol)
        self.star_imports = []  # module names
        self.defs = {}         # top-level name -> ast node (def/class/assign)
        self.assigns = {}      # top-level name -> value expr (last wins)
        self.item_assigns = {}  # top-level name -> [(key expr, value expr)]
        self.all_assigns = {}  # top-level name -> [value exprs]
        self.dunder_all = None
        for n in ast.walk(self.tree):
            for c in ast.iter_child_nodes(n):
                c._parent = n
        self.tree._parent = None
        self.tree._module = self
        self._scan_toplevel(self.tree.body)

    # -- scanning ---------------------------------------------------------
    def _pkg_parts(self):
        parts = self.name.split('.')
        return parts if self.is_pkg else parts[:-1]

    def _abs_from(self, node):
        if node.level == 0:
            return node.module or ''
        base = self._pkg_parts()
        if node.level > 1:
            base = base[:-(node.level - 1)]
        if node.module:
            return '.'.join(base + node.module.split('.'))
        return '.'.join(base)

    def _scan_toplevel(self, body):
        for st in body:
            if isinstance(st, ast.Import):
                for a in st.names:
                    if a.asname:
                        self.imports[a.asname] = ('module', a.name)
                    else:
                        top = a.name.split('.')[0]
                        self.imports[top] = ('module', top)
            elif isinstance(st, ast.ImportFrom):
                mod = self._abs_from(st)
                for a in st.names:
                    if a.name == '*':
                        self.star_imports.append(mod)
                    else:
                        self.imports[a.asname or a.name] = (
                            'symbol', mod, a.name)
            elif isinstance(st, (ast.FunctionDef, ast.AsyncFunctionDef,
                                 ast.ClassDef)):
                self.defs[st.name] = st
            elif isinstance(st, ast.Assign):
                for t in st.targets:
                    if isinstance(t, ast.Subscript) and isinstance(
                            t.value, ast.Name):
                        # TABLE[k] = v at module level
                        self.item_assigns.setdefault(t.value.id, []).append(
                            (t.slice, st.value))
                        continue
                    for nm in _target_names(t):
                        self.defs[nm] = st
                        if isinstance(t, ast.Name):
                            self.assigns[nm] = st.value
                            self.all_assigns.setdefault(nm, []).append(
                                st.value)
                    if isinstance(t, (ast.Tuple, ast.List)) and isinstance(
                            st.value, (ast.Tuple, ast.List)) and len(
                                t.elts) == len(st.value.elts):
                        # A, B = 'a', 'b'
                        for x, v in zip(t.elts, st.value.elts):
                            if isinstance(x, ast.Name) and not isinstance(
                                    v, ast.Starred):
                                self.assigns[x.id] = v
                                self.all_assigns.setdefault(
                                    x.id, []).append(v)
                    if (isinstance(t, ast.Name) and t.id == '__all__' and
                            isinstance(st.value, (ast.List, ast.Tuple))):
                        self.dunder_all = [
                            e.value for e in st.value.elts
                            if isinstance(e, ast.Constant)]
            elif isinstance(st, ast.AnnAssign) and isinstance(
                    st.target, ast.Name) and st.value is not None:
                self.defs[st.target.id] = st
                self.assigns[st.target.id] = st.value
            elif isinstance(st, (ast.If, ast.Try)):
                # conditional top-level definitions (try: import msbuild ...)
                if isinstance(st, ast.If):
                    # host family is folded to posix (stated assumption)
                    t = ast.unparse(st.test)
                    if t == "platform_info().family == 'windows'":
                        self._scan_toplevel(st.orelse)
                        continue
                    if t == "platform_info().family != 'windows'":
                        self._scan_toplevel(st.body)
                        continue
                for sub in _stmt_bodies(st):
                    self._scan_toplevel(sub)
            elif isinstance(st, ast.With):
                self._scan_toplevel(st.body)

    def public_names(self):
        if self.dunder_all is not None:
            return list(self.dunder_all)
        return [n for n in list(self.defs) + list(self.imports)
                if not n.startswith('_')]


def _stmt_bodies(st):
    if isinstance(st, ast.If):
        return [st.body, st.orelse]
    if isinstance(st, ast.Try):
        return [st.body] + [h.body for h in st.handlers] + \
            [st.orelse, st.finalbody]
    return []


def _target_names(t):
    if isinstance(t, ast.Name):
        return [t.id]
    if isinstance(t, (ast.Tuple, ast.List)):
        out = []
        for e in t.elts:
            out += _target_names(e)
        return out
    return []


class ClassInfo:
    def __init__(self, repo, module, node, qualname):
        self.repo = repo
        self.module = module
        self.node = node
        self.name = node.name
        self.qualname = qualname            # e.g. 'Writer' or 'Outer.Inner'
        self.fq = module.name + ':' + qualname
        self.methods = {}
        self.attrs = {}                      # class-level name -> value expr
        self.base_exprs = list(node.bases)
        self.bases = []                      # ClassInfo | str (external)
        for st in node.body:
            if isinstance(st, (ast.FunctionDef, ast.AsyncFunctionDef)):
                self.methods[st.name] = st
            elif isinstance(st, ast.Assign):
                for t in st.targets:
                    for nm in _target_names(t):
                        self.attrs[nm] = st.value
            elif isinstance(st, ast.AnnAssign) and isinstance(
                    st.target, ast.Name) and st.value is not None:
                self.attrs[st.target.id] = st.value

    def mangle(self, name):
        if name.startswith('__') and not name.endswith('__'):
            return '_' + self.name.lstrip('_') + name
        return name

    def mro(self):
        seen, out = set(), []

        def visit(c):
            if isinstance(c, str) or c.fq in seen:
                return
            seen.add(c.fq)
            out.append(c)
            for b in c.bases:
                visit(b)
        visit(self)
        return out

    def external_bases(self):
        out = []
        for c in self.mro():
            out += [b for b in c.bases if isinstance(b, str)]
        return out

    def find_method(self, name):
        for c in self.mro():
            if name in c.methods:
                return c, c.methods[name]
        return None, None

    def find_attr(self, name):
        for c in self.mro():
            if name in c.attrs:
                return c, c.attrs[name]
        return None, None

    def is_subclass_of(self, other_fq):
        return any(c.fq == other_fq for c in self.mro())

    def subclasses(self, strict=True):
        return [c for c in self.repo.classes.values()
                if c.is_subclass_of(self.fq) and (not strict or c is not self)]

    def __repr__(self):
        return '<class {}>'.format(self.fq)


class FuncInfo:
    def __init__(self, module, qualname, node, cls):
        self.module = module
        self.qualname = qualname
        self.node = node
        self.cls = cls
        self.fq = module.name + ':' + qualname

    def __repr__(self):
        return '<func {}>'.format(self.fq)


class Repo:
    def __init__(self, root='/repo', pkg=PKG):
        self.root = root
        self.pkg = pkg
        self.modules = {}
        self.classes = {}     # fq -> ClassInfo
        self.functions = {}   # fq -> FuncInfo
        self.digest = None
        self._load()
        self._index_defs()
        self._resolve_bases()

    # -- loading ----------------------------------------------------------
    def _load(self):
        base = os.path.join(self.root, self.pkg)
        if not os.path.isdir(base):
            raise AnalysisError('package directory missing: ' + base)
        h = hashlib.sha256()
        for dp, dns, fns in os.walk(base):
            dns.sort()
            dns[:] = [d for d in dns if d != '__pycache__']
            for fn in sorted(fns):
                if not fn.endswith('.py'):
                    continue
                p = os.path.join(dp, fn)
                rel = os.path.relpath(p, self.root)
                parts = rel[:-3].split(os.sep)
                is_pkg = parts[-1] == '__init__'
                if is_pkg:
                    parts = parts[:-1]
                name = '.'.join(parts)
                with open(p, encoding='utf-8') as f:
                    src = f.read()
                h.update(rel.encode() + b'\0' + src.encode() + b'\0')
                self.modules[name] = Module(name, p, rel, src, is_pkg)
        self.digest = h.hexdigest()
        if len(self.modules) < 80:
            raise AnalysisError('only {} modules parsed under {}'.format(
                len(self.modules), base))

    def _index_defs(self):
        for m in self.modules.values():
            self._index_body(m, m.tree.body, '', None)

    def _index_body(self, m, body, prefix, cls):
        for st in body:
            if isinstance(st, (ast.FunctionDef, ast.AsyncFunctionDef)):
                q = prefix + st.name
                fi = FuncInfo(m, q, st, cls)
                self.functions[fi.fq] = fi
                st._func = fi
                self._index_body(m, st.body, q + '.', None)
            elif isinstance(st, ast.ClassDef):
                q = prefix + st.name
                ci = ClassInfo(self, m, st, q)
                self.classes[ci.fq] = ci
                st._cls = ci
                self._index_body(m, st.body, q + '.', ci)
            elif isinstance(st, (ast.If, ast.Try)):
                for sub in _stmt_bodies(st):
                    self._index_body(m, sub, prefix, cls)
            elif isinstance(st, (ast.With, ast.For, ast.While)):
                self._index_body(m, st.body, prefix, cls)

    def _resolve_bases(self):
        for c in self.classes.values():
            for b in c.base_exprs:
                r = self.resolve_expr(c.module, b)
                if r and r[0] == 'class':
                    c.bases.append(r[1])
                else:
                    try:
                        c.bases.append(ast.unparse(b))
                    except Exception:  # pragma: no cover
                        c.bases.append('?')

    # -- lookup -----------------------------------------------------------
    def module(self, name):
        if name not in self.modules:
            raise AnalysisError('anchor module missing: ' + name)
        return self.modules[name]

    def cls(self, fq):
        if fq not in self.classes:
            raise AnalysisError('anchor class missing: ' + fq)
        return self.classes[fq]

    def func(self, fq):
        if fq not in self.functions:
            raise AnalysisError('anchor function missing: ' + fq)
        return self.functions[fq]

    def has_func(self, fq):
        return fq in self.functions

    def method(self, cls_fq, name):
        c = self.cls(cls_fq)
        owner, node = c.find_method(name)
        if node is None:
            raise AnalysisError('anchor method missing: {}.{}'.format(
                cls_fq, name))
        return self.functions[owner.module.name + ':' + owner.qualname +
                              '.' + name]

    # -- name resolution --------------------------------------------------
    def resolve_symbol(self, modname, name, _seen=None):
        """Resolve `name` looked up as an attribute of module `modname`.
        Returns ('module', Module) | ('class', ClassInfo) | ('func', FuncInfo)
        | ('value', Module, name, expr) | ('external', dotted) | None"""
        _seen = _seen or set()
        if (modname, name) in _seen:
            return None
        _seen.add((modname, name))
        m = self.modules.get(modname)
        if m is None:
            return ('external', modname + '.' + name)
        if name in m.defs:
            d = m.defs[name]
            if isinstance(d, ast.ClassDef):
                return ('class', d._cls)
            if isinstance(d, (ast.FunctionDef, ast.AsyncFunctionDef)):
                return ('func', d._func)
            # plain assignment; maybe alias of something resolvable
            val = m.assigns.get(name)
            if val is not None and isinstance(val, (ast.Name, ast.Attribute)):
                r = self.resolve_expr(m, val, _seen=_seen)
                if r is not None and r[0] in ('class', 'func', 'module'):
                    return r
            return ('value', m, name, val)
        if name in m.imports:
            imp = m.imports[name]
            if imp[0] == 'module':
                if imp[1] in self.modules:
                    return ('module', self.modules[imp[1]])
                return ('external', imp[1])
            sub = imp[1] + '.' + imp[2]
            if sub in self.modules:
                return ('module', self.modules[sub])
            if imp[1] in self.modules:
                return self.resolve_symbol(imp[1], imp[2], _seen)
            return ('external', imp[1] + '.' + imp[2])
        sub = modname + '.' + name
        if m.is_pkg and sub in self.modules:
            return ('module', self.modules[sub])
        for sm in m.star_imports:
            target = self.modules.get(sm)
            if target is None:
                continue
            if name in target.public_names() or (
                    target.dunder_all is None and not name.startswith('_')):
                r = self.resolve_symbol(sm, name, _seen)
                if r is not None and r[0] != 'external':
                    return r
        return None

    def resolve_expr(self, module, expr, local=None, _seen=None):
        """Resolve a Name/Attribute chain evaluated in `module` scope.
        `local` maps local alias names to AST expressions (e.g. lit ->
        safe_str.literal)."""
        if isinstance(expr, ast.Name):
            if local and expr.id in local:
                tgt = local[expr.id]
                if tgt is expr:
                    return None
                if isinstance(tgt, tuple):
                    return tgt       # already resolved (local import)
                return self.resolve_expr(module, tgt, None, _seen)
            return self.resolve_symbol(module.name, expr.id, _seen)
        if isinstance(expr, ast.Attribute):
            base = self.resolve_expr(module, expr.value, local, _seen)
            if base is None:
                return None
            if base[0] == 'module':
                return self.resolve_symbol(base[1].name, expr.attr, _seen)
            if base[0] == 'external':
                return ('external', base[1] + '.' + expr.attr)
            if base[0] == 'class':
                owner, meth = base[1].find_method(expr.attr)
                if meth is not None:
                    return ('func', meth._func)
                owner, val = base[1].find_attr(expr.attr)
                if val is not None:
                    if isinstance(val, (ast.Name, ast.Attribute)):
                        r = self.resolve_expr(owner.module, val, None, _seen)
                        if r is not None:
                            return r
                    return ('classattr', owner, expr.attr, val)
                return None
            if base[0] == 'value':
                return ('valueattr', base, expr.attr)
            return None
        return None

    def local_scope(self, finfo):
        """Aliases visible only inside a function: `x = a.b` assignments of
        name chains and function-local imports. Maps name -> AST expression or
        an already resolved tuple."""
        out = {}
        if finfo is None:
            return out
        m = finfo.module
        for n in walk_no_nested(finfo.node):
            if isinstance(n, ast.Assign) and len(n.targets) == 1 and \
                    isinstance(n.targets[0], ast.Name) and isinstance(
                        n.value, (ast.Name, ast.Attribute)):
                out[n.targets[0].id] = n.value
            elif isinstance(n, ast.ImportFrom):
                mod = m._abs_from(n)
                for a in n.names:
                    if a.name == '*':
                        continue
                    sub = mod + '.' + a.name
                    if sub in self.modules:
                        r = ('module', self.modules[sub])
                    else:
                        r = self.resolve_symbol(mod, a.name)
                    if r is not None:
                        out[a.asname or a.name] = r
            elif isinstance(n, ast.Import):
                for a in n.names:
                    if a.asname and a.name in self.modules:
                        out[a.asname] = ('module', self.modules[a.name])
        return out

    # -- helpers ----------------------------------------------------------
    def all_functions(self):
        return list(self.functions.values())

    def enclosing_func(self, node):
        n = getattr(node, '_parent', None)
        while n is not None:
            if isinstance(n, (ast.FunctionDef, ast.AsyncFunctionDef)):
                return n._func
            n = getattr(n, '_parent', None)
        return None

    def enclosing_class(self, node):
        n = getattr(node, '_parent', None)
        while n is not None:
            if isinstance(n, ast.ClassDef):
                return n._cls
            n = getattr(n, '_parent', None)
        return None

    def module_of(self, node):
        n = node
        while getattr(n, '_parent', None) is not None:
            n = n._parent
        return n._module

    def site(self, node):
        m = self.module_of(node)
        f = getattr(node, '_func', None) or self.enclosing_func(node)
        if f is None and getattr(node, '_cls', None) is not None:
            return '{}:{} (class {})'.format(
                m.relpath, getattr(node, 'lineno', 0), node._cls.qualname)
        return '{}:{} ({})'.format(m.relpath, getattr(node, 'lineno', 0),
                                   f.qualname if f else '<module>')


def unparse(node):
    try:
        return ast.unparse(node)
    except Exception:  # pragma: no cover
        return '<?>'


def walk_no_nested(node):
    """Walk the body of a function without descending into nested function or
    class definitions (lambdas are descended)."""
    stack = list(ast.iter_child_nodes(node))
    while stack:
        n = stack.pop()
        yield n
        if isinstance(n, (ast.FunctionDef, ast.AsyncFunctionDef,
                          ast.ClassDef)):
            continue
        stack.extend(ast.iter_child_nodes(n))


def call_name(call):
    """Dotted text of the callee of a Call, e.g. 'out.write_literal'."""
    return unparse(call.func)


def const_str(node):
    if isinstance(node, ast.Constant) and isinstance(node.value, str):
        return node.value
    return None
