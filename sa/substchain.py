"""Summarise small string-escaping functions as chains of substitutions.

The functions analysed (`Writer.escape_str` of the make and ninja backends)
take a string and a Syntax member and return the string after a few
`str.replace` / `re.sub` steps selected by `if syntax == ...` tests. For one
given Syntax member the summariser walks the function body, folds the tests
on the selector parameter, and returns the ordered list of substitutions that
reach the `return` -- or 'raises' when that member is rejected.

From the chain we compute `altered(c)`: is character c changed (escaped) by
some step, anywhere in the string or only at its start.
"""
import ast

from .consteval import (BoundConst, FuncRef, PartialConst, RegexConst,
                        UNKNOWN, const_eval, fold_test)
from .index import AnalysisError, unparse
from . import rx


class Subst:
    def __init__(self, kind, anywhere, start_only, text, node,
                 old=None, new=None):
        self.old = old            # for str.replace: constant arguments
        self.new = new
        self.kind = kind
        self.anywhere = anywhere        # set of chars altered anywhere
        self.start_only = start_only    # set of chars altered only at start
        self.text = text
        self.node = node

    def __repr__(self):
        return self.text


class SymStr:
    def __init__(self, base, ops=()):
        self.base = base
        self.ops = list(ops)

    def extend(self, op):
        return SymStr(self.base, self.ops + [op])


class Summariser:
    def __init__(self, repo, finfo, str_param, sel_param, member):
        self.repo = repo
        self.f = finfo
        self.mod = finfo.module
        self.cls = finfo.cls or repo.enclosing_class(finfo.node)
        self.str_param = str_param
        self.sel_param = sel_param
        self.member = member
        self.env = {str_param: SymStr(str_param)}
        self.cenv = {}        # locals holding constants (rows of a table)
        self.lambdas = {}     # locals holding lambda cells of a table row
        self.tables = {}      # locals holding literal tables (AST)
        self.localdefs = {}
        self.rejects_newline = False

    # -- expression evaluation -------------------------------------------
    def cev(self, e):
        if isinstance(e, ast.IfExp):
            t = self.fold(e.test)
            if t is not None:
                return self.cev(e.body if t else e.orelse)
        return const_eval(self.repo, self.mod, e, self.cls, self._consts())

    def fold(self, test):
        """Truth of a test under the selector binding; `isinstance(<the
        selector>, <its enum class>)` is true for every member."""
        if isinstance(test, ast.Call) and isinstance(
                test.func, ast.Name) and test.func.id == 'isinstance' and \
                len(test.args) == 2 and isinstance(
                    test.args[0], ast.Name) and \
                test.args[0].id == self.sel_param and self.member is not None:
            return True
        if isinstance(test, ast.UnaryOp) and isinstance(test.op, ast.Not):
            v = self.fold(test.operand)
            return None if v is None else not v
        if isinstance(test, ast.BoolOp):
            vs = [self.fold(v) for v in test.values]
            if isinstance(test.op, ast.And):
                if any(v is False for v in vs):
                    return False
                return None if any(v is None for v in vs) else True
            if any(v is True for v in vs):
                return True
            return None if any(v is None for v in vs) else False
        return fold_test(self.repo, self.mod, test, self.cls, self._consts())

    def _method(self, name):
        if self.cls is None:
            return None
        o, meth = self.cls.find_method(name)
        pre = '_' + self.cls.name.lstrip('_') + '__'
        if meth is None and name.startswith(pre):
            # the mangled spelling of a private name (getattr by string)
            o, meth = self.cls.find_method(name[len(pre) - 2:])
        if meth is None and name.startswith('__') and not name.endswith('__'):
            o, meth = self.cls.find_method(
                '_' + self.cls.name.lstrip('_') + name)
        return meth

    def _inline_method(self, meth, e):
        """`cls.m(s)` / `self.m(s)` / `getattr(cls, 'm')(s)`: the method's
        summary applied to the argument (one string parameter)."""
        if len(e.args) != 1 or e.keywords:
            return None
        fi = meth._func
        ps = [a.arg for a in fi.node.args.args if a.arg not in ('self',
                                                                'cls')]
        if len(ps) != 1:
            return None
        sub = Summariser(self.repo, fi, ps[0], '#none', None)
        sub.env = {ps[0]: self.sym(e.args[0])}
        r = sub._block(fi.node.body)
        if r is None or r[0] != 'return':
            return None
        return r[1]

    def _consts(self):
        d = dict(self.cenv)
        d[self.sel_param] = self.member
        return d

    def _repl_alters(self, repl, grp):
        """Does the replacement differ from the matched text?"""
        c = self.cev(repl)
        if isinstance(c, str):
            return not rx.template_is_identity(c, grp)
        if isinstance(repl, ast.Name) and repl.id in self.localdefs:
            fn = self.localdefs[repl.id]
            rets = [n for n in ast.walk(fn) if isinstance(n, ast.Return)]
            if len(rets) != 1 or rets[0].value is None:
                raise AnalysisError('replacement function {} in {} has '
                                    'unsupported shape'.format(
                                        repl.id, self.f.fq))
            # altered iff a non-empty string constant takes part
            for n in ast.walk(rets[0].value):
                if isinstance(n, ast.Constant) and isinstance(
                        n.value, str) and n.value:
                    return True
            return False
        if isinstance(repl, ast.Lambda):
            for n in ast.walk(repl.body):
                if isinstance(n, ast.Constant) and isinstance(
                        n.value, str) and n.value:
                    return True
            return False
        # a module-level function or a method of the class used as the
        # replacement callback
        target = None
        if isinstance(repl, ast.Name):
            r = self.repo.resolve_symbol(self.mod.name, repl.id)
            if r is not None and r[0] == 'func':
                target = r[1].node
        elif isinstance(repl, ast.Attribute) and isinstance(
                repl.value, ast.Name) and repl.value.id in ('self', 'cls') \
                and self.cls is not None:
            nm = repl.attr
            o, meth = self.cls.find_method(nm)
            if meth is None and nm.startswith('__'):
                o, meth = self.cls.find_method(
                    '_' + self.cls.name.lstrip('_') + nm)
            if meth is None:
                for k, v in self.cls.methods.items():
                    if k.endswith(nm):
                        meth = v
            target = meth
        if target is not None:
            for n in ast.walk(target):
                if isinstance(n, ast.Return) and n.value is not None:
                    for x in ast.walk(n.value):
                        if isinstance(x, ast.Constant) and isinstance(
                                x.value, str) and x.value:
                            return True
            return False
        raise AnalysisError('cannot analyse replacement {} in {}'.format(
            unparse(repl), self.f.fq))

    def _resub(self, base, pat, repl_alters, text, node):
        try:
            anywhere, start, grp = rx.sub_pattern_chars(pat)
        except rx.MultiCharPattern:
            return base.extend(Subst(
                'resub', set(), set(),
                '{} [pattern {!r}: multi-character match]'.format(text, pat),
                node))
        if not repl_alters(grp):
            anywhere, start = set(), set()
        return base.extend(Subst('resub', anywhere, start,
                                 '{} [pattern {!r}]'.format(text, pat), node))

    def _callback_alters(self, fnode):
        for n in ast.walk(fnode):
            if isinstance(n, ast.Return) and n.value is not None:
                for x in ast.walk(n.value):
                    if isinstance(x, ast.Constant) and isinstance(
                            x.value, str) and x.value:
                        return True
        return False

    def _apply_const_callable(self, cv, e):
        """`f(s)` where f is a callable known statically: a repository
        function (inlined), or functools.partial(<regex>.sub, repl)."""
        if isinstance(cv, FuncRef) and len(e.args) == 1 and not e.keywords:
            fi = cv.func
            ps = [a.arg for a in fi.node.args.args]
            if len(ps) != 1:
                return None
            sub = Summariser(self.repo, fi, ps[0], '#none', None)
            sub.env = {ps[0]: self.sym(e.args[0])}
            r = sub._block(fi.node.body)
            if r is None or r[0] != 'return':
                return None
            return r[1]
        if isinstance(cv, PartialConst) and isinstance(
                cv.func, BoundConst) and cv.func.name == 'sub' and \
                isinstance(cv.func.obj, RegexConst) and len(
                    cv.args) == 1 and len(e.args) == 1:
            repl = cv.args[0]
            base = self.sym(e.args[0])
            if isinstance(repl, str):
                alters = lambda grp: not rx.template_is_identity(repl, grp)  # noqa
            elif isinstance(repl, FuncRef):
                alters = lambda grp: self._callback_alters(repl.func.node)  # noqa
            else:
                return None
            return self._resub(base, cv.func.obj.pattern, alters,
                               unparse(e), e)
        return None

    def sym(self, e):
        if isinstance(e, ast.Name):
            if e.id in self.env:
                return self.env[e.id]
            raise AnalysisError('{}: {} is not derived from the input string'
                                .format(self.f.fq, e.id))
        if isinstance(e, ast.Call) and isinstance(e.func, ast.Name) and \
                e.func.id in self.lambdas and len(e.args) == 1:
            lam = self.lambdas[e.func.id]
            if len(lam.args.args) == 1:
                saved = self.env.get(lam.args.args[0].arg)
                self.env[lam.args.args[0].arg] = self.sym(e.args[0])
                try:
                    return self.sym(lam.body)
                finally:
                    if saved is None:
                        self.env.pop(lam.args.args[0].arg, None)
                    else:
                        self.env[lam.args.args[0].arg] = saved
        if isinstance(e, ast.Call) and isinstance(
                e.func, ast.Lambda) and len(e.args) == 1 and len(
                    e.func.args.args) == 1 and not e.keywords:
            # (lambda s: ...)(x): a table cell written out in place
            lam = e.func
            nm = lam.args.args[0].arg
            saved = self.env.get(nm)
            self.env[nm] = self.sym(e.args[0])
            try:
                return self.sym(lam.body)
            finally:
                if saved is None:
                    self.env.pop(nm, None)
                else:
                    self.env[nm] = saved
        if isinstance(e, ast.Call) and (
                isinstance(e.func, ast.Name) and e.func.id not in self.env
                or isinstance(e.func, ast.Call)):
            # f(s) / partial(<regex>.sub, repl)(s) with a callable known
            # statically (a table cell written out by the normaliser)
            cv = self.cev(e.func)
            if isinstance(cv, (FuncRef, PartialConst)):
                r = self._apply_const_callable(cv, e)
                if r is not None:
                    return r
        if isinstance(e, ast.Call):
            # a method of the class, named directly or through getattr with
            # a name that folds to a constant
            f_ = e.func
            mname = None
            if isinstance(f_, ast.Attribute) and isinstance(
                    f_.value, ast.Name) and f_.value.id in ('self', 'cls'):
                mname = f_.attr
            elif isinstance(f_, ast.Call) and isinstance(
                    f_.func, ast.Name) and f_.func.id == 'getattr' and \
                    len(f_.args) == 2 and isinstance(
                        f_.args[0], ast.Name) and \
                    f_.args[0].id in ('self', 'cls'):
                v = self.cev(f_.args[1])
                if isinstance(v, str):
                    mname = v
            if mname is not None:
                meth = self._method(mname)
                if meth is not None:
                    r = self._inline_method(meth, e)
                    if r is not None:
                        return r
        if isinstance(e, ast.Call) and isinstance(e.func, ast.Attribute):
            meth = e.func.attr
            pair = None
            if meth == 'join' and len(e.args) == 1 and isinstance(
                    e.args[0], ast.Call) and isinstance(
                        e.args[0].func, ast.Attribute) and \
                    e.args[0].func.attr == 'split' and len(
                        e.args[0].args) == 1:
                # NEW.join(s.split(OLD)) is s.replace(OLD, NEW)
                new_, old_ = self.cev(e.func.value), self.cev(
                    e.args[0].args[0])
                if isinstance(new_, str) and isinstance(old_, str):
                    pair = (old_, new_)
                    meth = 'replace'
                    e = ast.copy_location(ast.Call(
                        func=ast.Attribute(value=e.args[0].func.value,
                                           attr='replace', ctx=ast.Load()),
                        args=[], keywords=[]), e)
                    e._text = None
            if meth == 'replace' and len(e.args) == 1 and isinstance(
                    e.args[0], ast.Starred):
                pair = self.cev(e.args[0].value)
                if not (isinstance(pair, (tuple, list)) and len(pair) == 2):
                    pair = None
            if meth == 'replace' and (len(e.args) == 2 or pair):
                base = self.sym(e.func.value)
                old, new = pair if pair else (self.cev(e.args[0]),
                                              self.cev(e.args[1]))
                if not isinstance(old, str) or not isinstance(new, str):
                    raise AnalysisError('{}: non-constant replace {}'.format(
                        self.f.fq, unparse(e)))
                alt = set()
                if len(old) == 1 and new != old:
                    alt = {old}
                elif len(old) != 1 and old != new:
                    raise AnalysisError(
                        '{}: multi-character replace {} not modelled'
                        .format(self.f.fq, unparse(e)))
                return base.extend(Subst('replace', alt, set(), unparse(e),
                                         e, old, new))
            if meth == 'sub':
                recv_txt = unparse(e.func.value)
                if recv_txt == 're' and len(e.args) >= 3:
                    pat = self.cev(e.args[0])
                    repl, s = e.args[1], e.args[2]
                    if not isinstance(pat, str):
                        raise AnalysisError('{}: non-constant pattern in {}'
                                            .format(self.f.fq, unparse(e)))
                else:
                    pc = self.cev(e.func.value)
                    if not isinstance(pc, RegexConst) or len(e.args) < 2:
                        raise AnalysisError(
                            '{}: receiver of .sub is not a constant regex: {}'
                            .format(self.f.fq, unparse(e)))
                    pat = pc.pattern
                    repl, s = e.args[0], e.args[1]
                base = self.sym(s)
                try:
                    anywhere, start, grp = rx.sub_pattern_chars(pat)
                except rx.MultiCharPattern:
                    # consumes more than one character per match: the
                    # replacement cannot escape every occurrence
                    anywhere, start, grp = set(), set(), None
                    return base.extend(Subst(
                        'resub', anywhere, start,
                        '{} [pattern {!r}: multi-character match]'.format(
                            unparse(e), pat), e))
                if not self._repl_alters(repl, grp):
                    anywhere, start = set(), set()
                return base.extend(Subst(
                    'resub', anywhere, start,
                    '{} [pattern {!r}]'.format(unparse(e), pat), e))
        raise AnalysisError('{}: unrecognised string transformation {}'
                            .format(self.f.fq, unparse(e)))

    # -- statement walk ---------------------------------------------------
    def run(self):
        r = self._block(self.f.node.body)
        if r is None:
            raise AnalysisError('{}: falls off the end for {}'.format(
                self.f.fq, self.member))
        return r

    def _block(self, body):
        for st in body:
            r = self._stmt(st)
            if r is not None:
                return r
        return None

    def _stmt(self, st):
        if isinstance(st, (ast.FunctionDef,)):
            self.localdefs[st.name] = st
            return None
        if isinstance(st, ast.Expr) and isinstance(st.value, ast.Constant):
            return None
        if isinstance(st, ast.Return):
            if st.value is None:
                raise AnalysisError(self.f.fq + ': bare return')
            return ('return', self.sym(st.value))
        if isinstance(st, ast.Raise):
            return ('raises', unparse(st))
        if isinstance(st, ast.Continue):
            return ('continue', None)
        if isinstance(st, ast.Assign) and len(st.targets) == 1 and \
                isinstance(st.targets[0], ast.Name):
            if isinstance(st.value, (ast.Tuple, ast.List)) and st.value.elts \
                    and all(isinstance(x, (ast.Tuple, ast.List))
                            for x in st.value.elts):
                # a literal table (rows may hold lambdas): kept as written
                self.tables[st.targets[0].id] = st.value
                return None
            try:
                self.env[st.targets[0].id] = self.sym(st.value)
                self.cenv.pop(st.targets[0].id, None)
            except AnalysisError:
                v = self.cev(st.value)
                if v is UNKNOWN:
                    raise
                self.cenv[st.targets[0].id] = v
            return None
        if isinstance(st, (ast.For,)) and not st.orelse:
            # a loop over a constant table: unrolled row by row
            names = [x.id for x in (st.target.elts if isinstance(
                st.target, (ast.Tuple, ast.List)) else [st.target])
                if isinstance(x, ast.Name)]
            tbl = st.iter if isinstance(st.iter, (ast.Tuple, ast.List)) \
                else self.tables.get(st.iter.id) if isinstance(
                    st.iter, ast.Name) else None
            if tbl is None and isinstance(st.iter, ast.Call) and isinstance(
                    st.iter.func, ast.Attribute) and isinstance(
                        st.iter.func.value, ast.Name) and \
                    st.iter.func.value.id in ('cls', 'self') and \
                    self.cls is not None and not st.iter.args:
                # the table is returned by a method of the class
                nm = st.iter.func.attr
                meth = None
                for k_, v_ in self.cls.methods.items():
                    if k_ == nm or k_.endswith(nm):
                        meth = v_
                if meth is not None:
                    rets = [n for n in ast.walk(meth)
                            if isinstance(n, ast.Return)]
                    if len(rets) == 1 and isinstance(
                            rets[0].value, (ast.Tuple, ast.List)):
                        tbl = rets[0].value
            if tbl is not None and names and len(tbl.elts) <= 16 and all(
                    isinstance(r_, (ast.Tuple, ast.List)) and
                    len(r_.elts) == len(names) for r_ in tbl.elts):
                # rows with lambda cells: unrolled cell by cell
                for r_ in tbl.elts:
                    for k, cell in zip(names, r_.elts):
                        self.lambdas.pop(k, None)
                        self.cenv.pop(k, None)
                        if isinstance(cell, ast.Lambda):
                            self.lambdas[k] = cell
                        else:
                            v = self.cev(cell)
                            if v is UNKNOWN:
                                raise AnalysisError(
                                    '{}: table cell {} is not a constant'
                                    .format(self.f.fq, unparse(cell)))
                            self.cenv[k] = v
                    r = self._block(st.body)
                    if r is not None and r[0] != 'continue':
                        return r
                return None
            rows = self.cev(st.iter)
            if isinstance(rows, (tuple, list)) and len(rows) <= 16 and names:
                for row in rows:
                    if isinstance(st.target, ast.Name):
                        self.cenv[names[0]] = row
                    elif isinstance(row, (tuple, list)) and len(row) == len(
                            names):
                        for k, v in zip(names, row):
                            self.cenv[k] = v
                    else:
                        raise AnalysisError(
                            '{}: table row does not match the loop target'
                            .format(self.f.fq))
                    r = self._block(st.body)
                    if r is not None and r[0] != 'continue':
                        return r
                return None
        if isinstance(st, ast.If):
            t = self.fold(st.test)
            if t is None:
                # a test on the input string (e.g. newline rejection) whose
                # body only raises does not change the chain
                if all(isinstance(s, ast.Raise) for s in st.body) and \
                        not st.orelse:
                    if "'\\n'" in unparse(st.test):
                        self.rejects_newline = True
                    return None
                raise AnalysisError('{}: cannot fold test {}'.format(
                    self.f.fq, unparse(st.test)))
            return self._block(st.body if t else st.orelse)
        raise AnalysisError('{}: unsupported statement {}'.format(
            self.f.fq, type(st).__name__))


def summarise(repo, finfo, member, str_param=None, sel_param=None):
    args = [a.arg for a in finfo.node.args.args if a.arg not in ('self',
                                                                 'cls')]
    if len(args) < 2:
        raise AnalysisError(finfo.fq + ': expected (string, syntax) params')
    s = Summariser(repo, finfo, str_param or args[0], sel_param or args[1],
                   member)
    kind, val = s.run()
    if kind == 'raises':
        return None, s
    return val.ops, s


def altered(ops, ch, at_start=False):
    for op in ops:
        if ch in op.anywhere:
            return True
        if at_start and ch in op.start_only:
            return True
    return False
