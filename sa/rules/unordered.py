"""UNORDERED-ITER: no hash-order-dependent iteration reaches generated files.

Sources of unordered values: set/frozenset constructions, set displays and
comprehensions, set algebra, `dict.keys() - ...`, build_input registries whose
factory is `set`, verspec SpecifierSet objects (backed by a frozenset) and
functions all of whose returns are such values. Propagation: locals, `self.x`
attributes assigned from unordered values, function returns, parameters
(through resolved call sites).
Sinks: `for`, comprehensions, list/tuple/join/enumerate/star-unpacking.
Sanitisers: sorted() without key or with an injective key (str / identity),
len, `in`, min/max, any/all, sum, set algebra, set()/frozenset() rebuilding.
A sink is accepted when its body is order-insensitive by construction or it is
on the reasoned allow-list; otherwise it is a violation.
"""
import ast

from ..index import AnalysisError, unparse, walk_no_nested
from .. import query as Q

RULE = 'UNORDERED-ITER'

SET_CTORS = {'set', 'frozenset'}
SPECSET_CTORS = {'SpecifierSet', 'PythonSpecifierSet', 'simplify_specifiers'}
SET_METHODS = {'union', 'difference', 'intersection', 'symmetric_difference',
               'copy'}
ORDER_FREE_CALLS = {'len', 'min', 'max', 'any', 'all', 'sum', 'set',
                    'frozenset', 'bool'}
INJECTIVE_KEYS = {'str', 'repr'}

# sink allow-list: key -> reason (one named construct each)
ALLOW = {
    'bfg9000.builtins.find:write_depfile|for i in seen_dirs':
        'the find_files depfile is auxiliary by the property\'s own text '
        '(equal as a set of entries)',
}


# allow-list by *origin* of the unordered value (robust against moving the
# loop into a helper or renaming its variable): origin key -> reason
ORIGIN_ALLOW = {
    'bfg9000.environment|EnvVarDict.initial':
        'feeds EnvVarDict._changes -> mopack-options.yml, an auxiliary file '
        '(C13 requires set-equality only for auxiliary files)',
    'bfg9000.versioning|specifier-set':
        'the loop over the SpecifierSet handed to simplify_specifiers only '
        'folds min/max bounds and collects != entries that are re-packed '
        'into a SpecifierSet (unordered again) by the return expression',
    'bfg9000.languages|key-tables':
        'extension / per-type tables built in the language registries are '
        'only used for lookups by key',
    'bfg9000.builtins.find|find_dirs':
        'the find_files depfile is auxiliary by the property\'s own text '
        '(equal as a set of entries): iteration over the walked-directory '
        'set in builtins.find',
}


def _origin_allowed(ctx, fi, node):
    if fi.module.name not in ('bfg9000.builtins.find', 'bfg9000.environment',
                              'bfg9000.versioning', 'bfg9000.languages'):
        return None
    from ..facts import Facts, has
    F = getattr(ctx, '_facts', None)
    if F is None:
        F = ctx._facts = Facts(ctx.repo)
    it = getattr(node, 'iter', None)
    exprs = [it] if it is not None else []
    if isinstance(node, (ast.ListComp, ast.GeneratorExp, ast.SetComp,
                         ast.DictComp)):
        exprs = [g.iter for g in node.generators]
    if isinstance(node, ast.Call):
        exprs = list(node.args)
    if fi.module.name == 'bfg9000.environment':
        # the removed-variables set of EnvVarDict (keys of `initial` that
        # are gone), in whatever method/variable it is iterated
        if fi.cls is not None and fi.cls.name == 'EnvVarDict' and any(
                has(F.atoms(e, fi), 'self', 'initial') for e in exprs):
            return 'bfg9000.environment|EnvVarDict.initial'
        return None
    if fi.module.name == 'bfg9000.versioning':
        ss = ctx.repo.functions.get('bfg9000.versioning:simplify_specifiers')
        if ss is not None and (fi is ss or F.only_called_from(
                fi, {ss.fq})) and any(
                any(x.startswith(('param:', 'via:param:'))
                    for x in F.atoms(e, fi)) for e in exprs):
            return 'bfg9000.versioning|specifier-set'
        return None
    if fi.module.name == 'bfg9000.languages':
        if isinstance(node, ast.DictComp) and fi.node.name == '__init__':
            return 'bfg9000.languages|key-tables'
        return None
    # the value iterated is the seen_dirs parameter of write_depfile (or of a
    # helper it is passed to), fed from build_inputs['find_dirs']
    wd = ctx.repo.functions.get('bfg9000.builtins.find:write_depfile')
    ok_fn = fi is wd or (wd is not None and F.only_called_from(
        fi, {wd.fq}))
    for e in exprs:
        a = F.atoms(e, fi)
        if has(a, "['find_dirs']") or (ok_fn and any(
                x.startswith('param:') for x in a)):
            return 'bfg9000.builtins.find|find_dirs'
    return None


def _injective_key(call):
    """`sorted(xs, key=K)`: is K certainly injective on distinct elements
    (no key, str/repr, identity, or a tuple containing one of those)?"""
    key = Q.kwarg(call, 'key')
    if key is None:
        return True
    if isinstance(key, ast.Name) and key.id in INJECTIVE_KEYS:
        return True
    if isinstance(key, ast.Lambda) and key.args.args:
        b = key.body
        arg = key.args.args[0].arg

        def whole(x):
            if isinstance(x, ast.Name) and x.id == arg:
                return True
            return isinstance(x, ast.Call) and Q.attr_name(x.func) in \
                INJECTIVE_KEYS and len(x.args) == 1 and isinstance(
                    x.args[0], ast.Name) and x.args[0].id == arg
        if whole(b):
            return True
        if isinstance(b, ast.Tuple) and any(whole(x) for x in b.elts):
            return True
    return False


class Analysis:
    def __init__(self, repo, facts=None):
        self.repo = repo
        self.facts = facts
        self.ret_unordered = {}      # func fq -> bool
        self.attr_unordered = {}     # (class fq, attr) -> bool
        self.param_unordered = {}    # (func fq, param) -> bool
        self.registry_sets = set()
        self._scan_registries()
        self._fixpoint()

    # -- registries --------------------------------------------------------
    def _scan_registries(self):
        for m, c in Q.all_calls(self.repo):
            # build_input('name')(factory)
            if isinstance(c.func, ast.Call) and unparse(
                    c.func.func) == 'build_input' and c.func.args and c.args:
                name = c.func.args[0]
                fac = c.args[0]
                if isinstance(name, ast.Constant) and isinstance(
                        fac, ast.Name) and fac.id in SET_CTORS:
                    self.registry_sets.add(name.value)

    # -- expression classification ------------------------------------------
    def unordered(self, e, fn, depth=0):
        """True if `e` certainly denotes an unordered (hash-ordered)
        collection."""
        if depth > 8:
            return False
        u = lambda x: self.unordered(x, fn, depth + 1)  # noqa
        if isinstance(e, (ast.Set, ast.SetComp)):
            return True
        if isinstance(e, ast.Call):
            name = Q.attr_name(e.func)
            if isinstance(e.func, ast.Name):
                if name in SET_CTORS or name in SPECSET_CTORS:
                    return True
                # a stable sort with a key that can tie leaves the tied
                # elements in hash order
                if name == 'sorted' and e.args and u(e.args[0]) and \
                        not _injective_key(e):
                    return True
                if name == 'objectify' and len(e.args) >= 2 and \
                        Q.attr_name(e.args[1]) in SPECSET_CTORS:
                    return True
            if isinstance(e.func, ast.Attribute):
                if name in SPECSET_CTORS:
                    return True
                if name in SET_METHODS and u(e.func.value):
                    return True
                if name == 'keys':
                    return False
            r = self._resolve_func(e, fn)
            if r is not None and self.ret_unordered.get(r.fq):
                return True
            return False
        if isinstance(e, ast.BinOp) and isinstance(
                e.op, (ast.BitOr, ast.BitAnd, ast.Sub, ast.BitXor)):
            if u(e.left) or u(e.right):
                return True
            # dict.keys() - x  /  x - dict.keys() : set result
            for side in (e.left, e.right):
                if self.view(side, fn):
                    return True
            return False
        if isinstance(e, ast.IfExp):
            return u(e.body) or u(e.orelse)
        if isinstance(e, ast.Subscript):
            k = e.slice
            if isinstance(k, ast.Constant) and k.value in self.registry_sets:
                base = unparse(e.value)
                if base.endswith('build') or base in ('build_inputs',
                                                      'build'):
                    return True
            return False
        if isinstance(e, ast.Name) and fn is not None:
            if (fn.fq, e.id) in self.param_unordered:
                return self.param_unordered[(fn.fq, e.id)]
            rd = self._reaching(e, fn)
            if rd:
                # may-analysis: some definition reaching this use is unordered
                if e.id in getattr(self, '_stack', set()):
                    return False
                self._stack = getattr(self, '_stack', set()) | {e.id}
                try:
                    return any(v is not None and u(v) for v in rd)
                finally:
                    self._stack = self._stack - {e.id}
            vals = Q.local_assignments(fn.node, e.id)
            if vals and all(v is not None for v in vals):
                if e.id in getattr(self, '_stack', set()):
                    return False
                self._stack = getattr(self, '_stack', set()) | {e.id}
                try:
                    return all(u(v) for v in vals)
                finally:
                    self._stack = self._stack - {e.id}
            return False
        if isinstance(e, ast.Attribute):
            if isinstance(e.value, ast.Name) and e.value.id == 'self' and \
                    fn is not None:
                ci = fn.cls or self.repo.enclosing_class(fn.node)
                if ci is not None:
                    for c in ci.mro():
                        if (c.fq, e.attr) in self.attr_unordered:
                            return self.attr_unordered[(c.fq, e.attr)]
            return False
        return False

    def _reaching(self, name_node, fn):
        if self.facts is None or fn is None or \
                getattr(name_node, '_parent', None) is None:
            return []
        try:
            return self.facts.reaching_defs(fn, name_node)
        except Exception:
            return []

    def view(self, e, fn, depth=0):
        """`e` is a dict view supporting set algebra (keys()/items())."""
        if depth > 4:
            return False
        if isinstance(e, ast.Call) and isinstance(e.func, ast.Attribute):
            return e.func.attr in ('keys', 'items') and not e.args
        if isinstance(e, ast.Name) and fn is not None:
            rd = self._reaching(e, fn)
            if not rd:
                rd = [v for v in Q.local_assignments(fn.node, e.id)]
            return any(v is not None and v is not e and
                       self.view(v, fn, depth + 1) for v in rd)
        return False

    def _resolve_func(self, call, fn):
        mod = fn.module if fn is not None else None
        if mod is None:
            return None
        f = call.func
        if isinstance(f, (ast.Name, ast.Attribute)):
            r = self.repo.resolve_expr(mod, f)
            if r and r[0] == 'func':
                return r[1]
            if isinstance(f, ast.Attribute) and isinstance(
                    f.value, ast.Name) and f.value.id in ('self', 'cls'):
                ci = fn.cls or self.repo.enclosing_class(fn.node)
                if ci is not None:
                    o, meth = ci.find_method(f.attr)
                    if meth is not None:
                        return meth._func
        return None

    # -- fixpoint ------------------------------------------------------------
    def _fixpoint(self):
        repo = self.repo
        for _ in range(4):
            changed = False
            # attributes
            for ci in repo.classes.values():
                assigns = {}
                for meth in ci.methods.values():
                    fi = meth._func
                    for n in ast.walk(meth):
                        if isinstance(n, ast.Assign):
                            for t in n.targets:
                                if isinstance(t, ast.Attribute) and \
                                        isinstance(t.value, ast.Name) and \
                                        t.value.id == 'self':
                                    assigns.setdefault(t.attr, []).append(
                                        (n.value, fi))
                for attr, vals in assigns.items():
                    v = all(self.unordered(x, fi) for x, fi in vals)
                    if self.attr_unordered.get((ci.fq, attr)) != v:
                        self.attr_unordered[(ci.fq, attr)] = v
                        changed = changed or v
            # returns
            for fi in repo.functions.values():
                rets = [r for r in walk_no_nested(fi.node)
                        if isinstance(r, ast.Return) and r.value is not None]
                v = bool(rets) and all(self.unordered(r.value, fi)
                                       for r in rets)
                if self.ret_unordered.get(fi.fq, False) != v:
                    self.ret_unordered[fi.fq] = v
                    changed = True
            # parameters: unordered if some resolved caller passes unordered
            for m, c in Q.all_calls(repo):
                caller = repo.enclosing_func(c)
                if caller is None:
                    continue
                callee = self._resolve_func(c, caller)
                if callee is None:
                    continue
                plist = Q.params(callee.node)
                off = 1 if plist and plist[0] in ('self', 'cls') and \
                    isinstance(c.func, ast.Attribute) else 0
                for i, a in enumerate(c.args):
                    if isinstance(a, ast.Starred) or i + off >= len(plist):
                        break
                    if self.unordered(a, caller):
                        k = (callee.fq, plist[i + off])
                        if not self.param_unordered.get(k):
                            self.param_unordered[k] = True
                            changed = True
                for kw in c.keywords:
                    if kw.arg and kw.arg in plist and self.unordered(
                            kw.value, caller):
                        k = (callee.fq, kw.arg)
                        if not self.param_unordered.get(k):
                            self.param_unordered[k] = True
                            changed = True
            if not changed:
                break


def _sanitised(node):
    """Is this iteration wrapped directly in an order-free consumer?
    node is the comprehension/generator or the unordered expression."""
    p = getattr(node, '_parent', None)
    if isinstance(p, ast.Call):
        name = Q.attr_name(p.func)
        if name in ORDER_FREE_CALLS and isinstance(p.func, ast.Name):
            return True
        if name == 'sorted' and isinstance(p.func, ast.Name):
            return _injective_key(p)
    return False


def _order_free_body(loop):
    """Loop body that cannot observe iteration order: only set.add /
    membership tests / raise / idempotent checks."""
    for st in loop.body:
        for n in ast.walk(st):
            if isinstance(n, ast.Call):
                nm = Q.attr_name(n.func)
                if nm in ('add', 'discard', 'isinstance', 'hasattr', 'len',
                          'format', 'ValueError', 'TypeError', 'repr'):
                    continue
                return False
            if isinstance(n, (ast.Assign, ast.AugAssign, ast.Yield,
                              ast.YieldFrom, ast.Return, ast.Break)):
                return False
    return True


def sinks(repo, an, modules=None):
    out = []
    for fi in sorted(repo.functions.values(), key=lambda f: f.fq):
        if modules is not None and fi.module.name not in modules:
            continue
        if fi.module.name.startswith(('bfg9000.backends.msbuild',
                                      'bfg9000.e1m1')):
            continue
        for n in walk_no_nested(fi.node):
            if isinstance(n, (ast.For, ast.AsyncFor)):
                if an.unordered(n.iter, fi):
                    out.append((fi, n, 'for {} in {}'.format(
                        unparse(n.target), unparse(n.iter)), n))
            elif isinstance(n, (ast.ListComp, ast.GeneratorExp, ast.DictComp,
                                ast.SetComp)):
                for g in n.generators:
                    if an.unordered(g.iter, fi):
                        out.append((fi, n, unparse(n), n))
            elif isinstance(n, ast.Call):
                nm = Q.attr_name(n.func)
                if isinstance(n.func, ast.Name) and nm in (
                        'list', 'tuple', 'enumerate', 'iter', 'first',
                        'uniques', 'chain', 'listify', 'flatten') and any(
                            an.unordered(a, fi) for a in n.args):
                    out.append((fi, n, unparse(n), n))
                elif nm == 'join' and isinstance(n.func, ast.Attribute) and \
                        n.args and an.unordered(n.args[0], fi):
                    out.append((fi, n, unparse(n), n))
                else:
                    for a in n.args:
                        if isinstance(a, ast.Starred) and an.unordered(
                                a.value, fi):
                            out.append((fi, n, unparse(n), n))
    return out


def check(ctx, modules=None, rule_id=RULE):
    repo = ctx.repo
    ctx.rule(rule_id, 'no iteration over a hash-ordered collection (set, '
             'frozenset, SpecifierSet, set-valued registries) reaches a '
             'consumer that can observe the order, unless sorted with an '
             'injective key or allow-listed with a reason (reaching '
             'definitions; dict-view set algebra; a stable sort with a key '
             'that can tie keeps the hash order of the tied elements)')
    from ..facts import Facts
    F = getattr(ctx, '_facts', None)
    if F is None:
        F = ctx._facts = Facts(repo)
    an = Analysis(repo, F)
    n_src = sum(1 for v in an.ret_unordered.values() if v) + \
        sum(1 for v in an.attr_unordered.values() if v) + \
        sum(1 for v in an.param_unordered.values() if v)
    ctx.stat('unordered_sources', {
        'functions_returning_unordered': sorted(
            k for k, v in an.ret_unordered.items() if v),
        'attributes_unordered': sorted(
            '{}.{}'.format(*k) for k, v in an.attr_unordered.items() if v),
        'parameters_unordered': sorted(
            '{}({})'.format(*k) for k, v in an.param_unordered.items() if v),
        'registry_sets': sorted(an.registry_sets),
    })
    found = sinks(repo, an, modules)
    if modules is None:
        ctx.ob(rule_id, 'unordered-sources|found', n_src >= 3, None,
               'only {} unordered sources recognised'.format(n_src))
    for fi, node, text, site in found:
        key = '{}|{}'.format(fi.fq, text)
        if isinstance(node, ast.SetComp):
            ctx.ob(rule_id, key, True, site, 'result is itself a set')
            continue
        if _sanitised(node):
            ctx.ob(rule_id, key, True, site, 'consumed by an order-free '
                   'function or sorted with an injective key')
            continue
        if isinstance(node, (ast.For,)) and _order_free_body(node):
            ctx.ob(rule_id, key, True, site, 'loop body is order-'
                   'insensitive by construction')
            continue
        if key in ALLOW:
            ctx.ob(rule_id, key, True, site, 'allow-listed: ' + ALLOW[key])
            continue
        og = _origin_allowed(ctx, fi, node)
        if og:
            ctx.ob(rule_id, og, True, site, 'allow-listed: ' +
                   ORIGIN_ALLOW[og])
            continue
        ctx.ob(rule_id, key, False, site,
               'iteration order of a hash-ordered collection reaches an '
               'order-sensitive consumer: ' + text[:100])
    return an, found
