"""Rules shared by C08, C11, C18: REGEN-INPUTS, FIND-DIRS, CACHE-REPLAY,
RESULT-LATTICE, SOURCE-REGISTRATION.

Every clause is a value-flow, control-dependence or dominance fact
(sa/facts.py); none compares source text. Names that appear in patterns are
attribute names, dictionary keys and function names of the repository's own
interfaces (`seen_paths`, `['find_cache']`, `add_bootstrap`, ...).
"""
import ast

from ..consteval import const_eval
from ..facts import (Facts, direct, has, has_call, has_const, param_of,
                     paths)
from ..index import AnalysisError, unparse, walk_no_nested
from .. import query as Q

FIND = 'bfg9000.builtins.find:'
REGEN = 'bfg9000.builtins.regenerate:'
BUILD = 'bfg9000.build:'


def _facts(ctx):
    f = getattr(ctx, '_facts', None)
    if f is None:
        f = ctx._facts = Facts(ctx.repo)
    return f


def _allocs(atoms, fn=None):
    """Fresh containers among the atoms (those created in fn, if given)."""
    pre = 'alloc:' + (fn.qualname + '#' if fn is not None else '')
    return {a for a in atoms if a.startswith(pre)}


def _true(e, kw):
    v = Q.kwarg(e.call, kw)
    if isinstance(v, ast.Constant):
        return v.value is True
    if v is None:
        # forwarded through the helper's own **kwargs: what the caller of
        # the helper passed
        va = e.fn.node.args.kwarg
        for k in e.call.keywords:
            if k.arg is None and isinstance(k.value, ast.Name) and \
                    va is not None and k.value.id == va.arg and \
                    len(e.path) >= 2 and isinstance(e.path[-2][1], ast.Call):
                pv = Q.kwarg(e.path[-2][1], kw)
                if isinstance(pv, ast.Constant):
                    return pv.value is True
    # a parameter the (only analysed) caller binds to True
    return v is not None and direct(e.arg(kw=kw)) == {'const:True'}


# --------------------------------------------------------------------------
def regen_inputs(ctx):
    R = 'REGEN-INPUTS'
    ctx.rule(R, 'every executed script is recorded (exec under '
             'context.push_path(path), which appends to seen_paths before '
             'yielding), every recorded path becomes a bootstrap path, and '
             'the regenerate rule of both backends depends on bootstrap '
             'paths + toolchain file + mopack metadata and declares the '
             'build file + every immediate file as outputs')
    F = _facts(ctx)
    ex = F.fn(BUILD + '_execute_script')
    execs = F.effects(ex, lambda e: e.name == 'exec' and isinstance(
        e.call.func, ast.Name), depth=2)
    pushes = F.effects(ex, lambda e: e.name == 'push_path', depth=2)
    ok = bool(execs) and all(
        has_call(e.withs(), 'push_path') and param_of(e.withs(), 'path')
        for e in execs) and bool(pushes) and all(
        {a for a in direct(e.arg(0)) if not a.startswith('const:')} ==
        {'param:path'} for e in pushes if e.fn.module is ex.module)
    ctx.ob(R, '_execute_script|exec-inside-push_path', ok, ex.node,
           'the script is executed outside context.push_path(path): it is '
           'not recorded as a regeneration input')
    # the executed code is the file that was opened for `path`
    ef = F.fn(BUILD + 'execute_file')
    cs = F.calls_to(ef, '_execute_script', depth=1)
    ok = bool(cs)
    for e in cs:
        opened = {a for a in e.arg(0) if 'string(' in a}
        roots = {a.replace('via:', '').replace('param:', '').split('.')[0]
                 for a in opened}
        rec = {a[6:] for a in e.arg(2) if a.startswith('param:')}
        ok = ok and has_call(e.arg(0), 'open') and bool(roots & rec)
    ctx.ob(R, 'execute_file|same-path-read-and-recorded', ok, ef.node,
           'the path recorded differs from the file that is read')
    pp = F.fn('bfg9000.builtins.builtin:StackContext.push_path')
    cm = F.context_manager(pp)
    ok = cm is not None and any(
        e.name == 'append' and has(e.recv(), 'seen_paths') and
        param_of(e.arg(0), 'path') for e in cm['enter'])
    ctx.ob(R, 'StackContext.push_path|records-seen_paths', ok, pp.node,
           'push_path does not record every pushed path in seen_paths '
           'before the script runs')
    sub = F.fn('bfg9000.builtins.core:submodule')
    ok = bool(F.calls_to(sub, 'execute_file', depth=1))
    ctx.ob(R, 'submodule|executes-through-execute_file', ok, sub.node,
           'submodule scripts are not executed through execute_file')
    cb = F.fn(BUILD + 'configure_build')
    boots = F.calls_to(cb, 'add_bootstrap', depth=1)
    a = set()
    for e in boots:
        a |= e.arg(0)
    ok = has(a, 'BuildContext()', 'seen_paths')
    ctx.ob(R, 'configure_build|build-script-seen_paths->bootstrap', ok,
           cb.node, 'not every script executed for build.bfg (submodules) '
           'becomes a bootstrap path')
    ok = has(a, 'OptionsContext()', 'seen_paths')
    ctx.ob(R, 'configure_build|options-seen_paths->bootstrap', ok, cb.node,
           'options.bfg (and its submodules) do not become bootstrap paths')
    bi = F.fn('bfg9000.build_inputs:BuildInputs.__init__')
    ok = any(param_of(e.arg(0), 'bfgpath')
             for e in F.calls_to(bi, 'add_bootstrap', depth=1))
    ctx.ob(R, 'BuildInputs.__init__|build.bfg-is-bootstrap', ok, bi.node,
           'the main build.bfg is not a bootstrap path')
    ab = F.fn('bfg9000.build_inputs:BuildInputs.add_bootstrap')
    ok = any(e.name in ('append', 'add', 'insert') and has(
        e.recv(), 'bootstrap_paths') and param_of(e.all_args(), 'path')
        for e in F.effects(ab, lambda e: True, depth=1))
    ctx.ob(R, 'BuildInputs.add_bootstrap|stores', ok, ab.node,
           'add_bootstrap does not record the path')
    inp = F.fn(REGEN + '_inputs')
    r = F.returns(inp)
    ok = has(r, 'bootstrap_paths') and has(r, 'toolchain', 'path')
    ctx.ob(R, '_inputs|bootstrap+toolchain', ok, inp.node,
           'regeneration inputs lack bootstrap paths or the toolchain file')
    ok = has(r, "tool('mopack')", 'metadata_file')
    ctx.ob(R, '_inputs|mopack-metadata', ok, inp.node,
           'mopack metadata file is not a regeneration input')
    outp = F.fn(REGEN + '_outputs')
    r = F.returns(outp)
    ok = has(r, 'list_backends()', 'filepath') and \
        has(r, "['regenerate']", 'outputs', 'path')
    ctx.ob(R, '_outputs|build-file+immediate-files', ok, outp.node,
           'regeneration outputs lack the build file or the files written '
           'at configure time')
    mif = F.fn('bfg9000.builtins.file_types:make_immediate_file')
    ok = any(e.name in ('append', 'add') and has(
        e.recv(), "['regenerate']", 'outputs') and param_of(
            e.all_args(), 'file')
        for e in F.effects(mif, lambda e: True, depth=1))
    ctx.ob(R, 'make_immediate_file|registers-output', ok, mif.node,
           'files written at configure time are not declared as outputs of '
           'the regeneration step')
    for fq, okws, ikws in (
            (REGEN + 'make_regenerate_rule', ('targets', 'target'),
             ('deps',)),
            (REGEN + 'ninja_regenerate_rule', ('output', 'outputs'),
             ('implicit', 'inputs'))):
        f = F.fn(fq)
        rules = F.effects(f, lambda e: any(
            has_call(e.arg(kw=k), '_outputs') for k in okws), depth=0)
        ok = bool(rules) and all(any(has_call(e.arg(kw=k), '_inputs')
                                     for k in ikws) for e in rules)
        ctx.ob(R, fq.split(':')[1] + '|uses-_inputs/_outputs', ok, f.node,
               'the edge that produces the regeneration outputs does not '
               'depend on the regeneration inputs')
        allf = F.effects(f, lambda e: True, depth=1)
        regen = [e for e in allf if e.callee_is("tool('bfg9000')") and
                 e.call.args and isinstance(e.call.args[0], ast.Constant)
                 and e.call.args[0].value == 'regenerate']
        ok = bool(regen) and all(_true(e, 'lazy') for e in regen)
        used = False
        for e in allf:
            for k in ('recipe', 'command'):
                if any("tool('bfg9000')('regenerate'" in a
                       for a in e.arg(kw=k)):
                    used = True
        ctx.ob(R, fq.split(':')[1] + '|runs-regenerate', ok and used, f.node,
               'the regenerate rule does not run `bfg9000 regenerate` '
               '(lazy)')
    f = F.fn(REGEN + 'ninja_regenerate_rule')
    rr = F.effects(f, lambda e: e.kw_const('name') == 'regenerate', depth=1)
    ok = bool(rr) and all(_true(e, 'generator') and has(
        e.arg(kw='depfile'), "['regenerate']", 'depfile') for e in rr)
    ctx.ob(R, 'ninja_regenerate_rule|generator+depfile', ok, f.node,
           'ninja regenerate rule is not a generator rule with the find '
           'depfile')


# --------------------------------------------------------------------------
def _find_dirs_update(F, fn):
    """(update effects on build['find_dirs'], alloc atoms handed to
    _find_files as seen_dirs)."""
    ups = [e for e in F.effects(fn, lambda e: e.name in (
        'update', 'add', 'extend'), depth=2)
        if has(e.recv(), "['find_dirs']")]
    walked = set()
    for e in F.calls_to(fn, '_find_files', depth=2):
        walked |= _allocs(e.arg(2, kw='seen_dirs'))
    return ups, walked


def find_dirs(ctx):
    R = 'FIND-DIRS'
    ctx.rule(R, 'every directory walked by a cached find_files is added to '
             'find_dirs, the depfile is requested, both backends write the '
             'depfile from find_dirs, Make includes it and Ninja names it as '
             'the regenerate rule\'s depfile; the lazy re-check records the '
             'directories whenever it walks; both hooks save (or remove) the '
             'cache file on every path')
    F = _facts(ctx)
    ff = F.fn(FIND + '_find_files')
    aps = [e for e in F.effects(ff, lambda e: e.name == 'append', depth=0)
           if param_of(e.recv(), 'seen_dirs')]
    ok = bool(aps) and all(has_call(e.arg(0), 'walk') for e in aps) and all(
        all(param_of(F.atoms(t, ff), 'seen_dirs')
            for t in F.guards(e.call, ff)) and
        all(param_of(l | r_, 'seen_dirs')
            for op, l, r_ in F.guard_compares(e.call, ff))
        for e in aps) and all(
        any(isinstance(l, ast.For) and has_call(F.atoms(l.iter, ff), 'walk')
            for l in e.loops()) for e in aps)
    ctx.ob(R, '_find_files|every-walked-dir-recorded', ok, ff.node,
           'walked directories are not all recorded in seen_dirs')
    fff = F.fn(FIND + 'find_from_filter')
    ups, walked = _find_dirs_update(F, fff)
    ok = bool(walked) and any(_allocs(e.all_args()) & walked for e in ups)
    ctx.ob(R, 'find_from_filter|find_dirs.update', ok, fff.node,
           'the directories walked by a cached search (the list handed to '
           '_find_files) are not added to find_dirs')
    fcc = F.fn(FIND + 'find_check_cache')
    ups, walked = _find_dirs_update(F, fcc)
    ok = bool(walked) and any(_allocs(e.all_args()) & walked for e in ups)
    ctx.ob(R, 'find_check_cache|find_dirs.update', ok, fcc.node,
           'directories walked by the cache re-check are not recorded')
    # find_dirs is the complete list the depfile is rewritten from, and a
    # regeneration that goes ahead serves every search from the pre-filled
    # cache without walking again: whenever the re-check walks, it records
    walks = [e for e in F.effects(fcc, lambda e: e.name == '_find_files',
                                  depth=1)
             if _allocs(e.arg(2, kw='seen_dirs')) & walked]
    recs = [e for e in ups if _allocs(e.all_args()) & walked]
    wc = set()
    for e in walks:
        wc |= e.control()
    extra_ctl = set()
    for e in recs:
        extra_ctl |= {a for a in e.control() - wc
                      if not a.startswith(('const:', 'key:'))}
    ctx.ob(R, 'find_check_cache|records-whenever-it-walks',
           bool(walks) and bool(recs) and not extra_ctl, fcc.node,
           'the walked directories are recorded only under a further '
           'condition ({}): the depfile of a regeneration that goes ahead '
           'loses the directories of the other searches'.format(
               ', '.join(sorted(extra_ctl))[:160]))
    f = F.fn(FIND + 'find_files')
    ok = any(has(t, "['regenerate']", 'depfile') and has(v, 'depfile_name')
             and param_of(F.control(n, f), 'cache')
             for t, v, n in F.stores(f))
    ctx.ob(R, 'find_files|requests-depfile', ok, f.node,
           'a cached find_files does not request the directory depfile')
    wds = {}
    for b, fq in (('make', FIND + 'make_find_dirs'),
                  ('ninja', FIND + 'ninja_find_dirs')):
        h = F.fn(fq)
        wd = F.calls_to(h, 'write_depfile', depth=1)
        wds[b] = wd
        ok = bool(wd) and all(
            has(e.arg(1, kw='path'), 'depfile_name') and
            has(e.arg(2, kw='output'), 'filepath') and
            has(e.arg(3, kw='seen_dirs'), "['find_dirs']") for e in wd)
        ctx.ob(R, fq.split(':')[1] + '|writes-depfile-from-find_dirs', ok,
               h.node, 'the depfile is not written for the build file from '
               'find_dirs')
        # the cache file is (re)written or removed on every run: a stale
        # one from an earlier configuration would drive the next lazy check
        ok = F.must(h, lambda e: e.name == 'save' and has_call(
            e.recv(), 'FindCacheFile'), depth=1)
        ctx.ob(R, fq.split(':')[1] + '|cache-file-always-refreshed', ok,
               h.node, 'on some path the hook returns without saving (or '
               'removing) .bfg_find_cache: a stale cache from an earlier '
               'configuration decides the next lazy regeneration')
        if b == 'make':
            inc = [e for e in F.calls_to(h, 'include', depth=1)
                   if has(e.all_args(), 'depfile_name')]
            ok = bool(inc) and bool(wd) and all(
                _true(e, 'makeify') or (len(e.call.args) > 4 and isinstance(
                    e.call.args[4], ast.Constant) and
                    e.call.args[4].value is True) for e in wd)
            ctx.ob(R, 'make_find_dirs|include+makeify', ok, h.node,
                   'Make does not include the depfile (with empty rules '
                   'for deleted directories)')
    # the lazy re-check walks the tree again: a change in the set of walked
    # directories must either force a regeneration or be written to the
    # depfile before the run is aborted -- otherwise a directory created
    # since the last run is never watched
    _, walked = _find_dirs_update(F, fcc)
    raises = [n for n in walk_no_nested(fcc.node) if isinstance(n, ast.Raise)]
    ctl = set()
    for n in raises:
        ctl |= F.control(n, fcc)
    in_decision = bool(_allocs(ctl) & walked) or has(ctl, "['find_dirs']")
    rewrites = F.calls_to(fcc, 'write_depfile', depth=2)
    ctx.ob(R, 'find_check_cache|new-directories-tracked-when-skipping',
           in_decision or bool(rewrites), fcc.node,
           'the directories found by the lazy re-check are neither compared '
           'in the skip decision nor written to the depfile before the run '
           'is aborted: a directory created since the last regeneration is '
           'never watched')
    # Make: the depfile adds the walked directories as prerequisites of a
    # *target name*; that must be the target that carries the regenerate
    # recipe. The regenerate rule goes through multitarget_rule, which moves
    # the recipe to `<first output>.stamp` as soon as there is more than one
    # output (any immediate file, e.g. a .pc file).
    mrr = F.fn(REGEN + 'make_regenerate_rule')
    via_multi = any(has_call(e.arg(kw='targets'), '_outputs') or has_call(
        e.arg(1), '_outputs')
        for e in F.calls_to(mrr, 'multitarget_rule', depth=1))
    mfd = F.fn(FIND + 'make_find_dirs')
    # the depfile's target is a fixed name: it depends on nothing the
    # regeneration outputs are computed from
    const_target = bool(wds['make']) and all(
        has(e.arg(2, kw='output'), 'filepath') and not any(
            'build_inputs' in a or 'param:' in a or '_outputs' in a
            for a in e.arg(2, kw='output'))
        for e in wds['make'])
    ctx.ob(R, 'make_find_dirs|depfile-target-carries-the-recipe',
           not (via_multi and const_target), mfd.node,
           'the depfile names `Makefile` as the target that depends on the '
           'searched directories, but with more than one regeneration '
           'output the recipe sits on `Makefile.stamp` (multitarget_rule): '
           'a directory change then never triggers a regeneration')
    wdf = F.fn(FIND + 'write_depfile')
    ws = [e for e in F.effects(wdf, lambda e: e.name in ('write',
                                                         'write_each'),
                               depth=1)
          if has(e.all_args(), 'Syntax', 'dependency')]
    ws = [e for e in ws if has(e.arg(0), 'seen_dirs')]
    ok = bool(ws) and any(not F.guards(e.call, e.fn) and not e.outer
                          for e in ws)
    ctx.ob(R, 'write_depfile|all-dirs', ok, wdf.node,
           'the depfile does not list every seen directory as a '
           'prerequisite')


# --------------------------------------------------------------------------
def _registrations(F, f):
    """Calls that create file objects for found paths: the callee comes out
    of the caller's type tables."""
    found, extra = [], []
    for e in F.effects(f, lambda e: Q.kwarg(e.call, 'dist') is not None or
                       isinstance(e.call.func, ast.Subscript), depth=1):
        h = e.heads()
        if has(h, "['auto_file']") or any(x in ('file_type', 'dir_type')
                                          for x in h):
            found.append(e)
        elif has(h, "['generic_file']"):
            extra.append(e)
    return found, extra


def cache_replay(ctx, check_order=False):
    R = 'CACHE-REPLAY'
    ctx.rule(R, 'the cache-hit path of find_from_filter replays every '
             'field of a FindCacheEntry that the miss path records: found '
             'entries through the caller\'s file/dir types, extra (not_now) '
             'entries as generic files/directories, both with the caller\'s '
             'dist flag; the saved cache is all or nothing (only '
             'FindCacheFile.save catches SerializationError, and then removes '
             'the file)')
    repo = ctx.repo
    F = _facts(ctx)
    fc = repo.cls(FIND + 'FindCache')
    nt = fc.attrs.get('FindCacheEntry')
    Q.require(nt is not None and isinstance(nt, ast.Call),
              'FindCache.FindCacheEntry namedtuple not found')
    fields = const_eval(repo, fc.module, nt.args[1])
    Q.require(isinstance(fields, list) and fields, 'FindCacheEntry fields')
    f = F.fn(FIND + 'find_from_filter')
    found, extra = _registrations(F, f)
    regs = found + extra

    def from_cache(e, fld=None):
        a = e.arg(0)
        return has(a, "['find_cache']", fld) if fld else has(
            a, "['find_cache']")

    def from_walk(e):
        return has_call(e.arg(0), '_find_files')

    for i, fld in enumerate(fields):
        ok = any(from_cache(e, fld) for e in regs)
        ctx.ob(R, 'find_from_filter|hit-path-replays|' + fld, ok, f.node,
               'the cache-hit path never registers FindCacheEntry.{}: '
               'entries recorded as {} on the first run are not registered '
               'again after a lazy regeneration'.format(fld, fld))
    for what, effs, fld in (('found', found, 'found'),
                            ('extra', extra, 'extra')):
        hit = [e for e in effs if from_cache(e)]
        miss = [e for e in effs if from_walk(e)]
        ctx.ob(R, 'find_from_filter|miss-path-registers|' + what,
               bool(miss) and all(param_of(direct(e.arg(kw='dist')), 'dist')
                                  for e in miss), f.node,
               'the miss path does not register {} entries with the '
               'caller\'s dist'.format(what))
        ctx.ob(R, 'find_from_filter|hit-path-registers|' + what,
               bool(hit) and all(param_of(direct(e.arg(kw='dist')), 'dist')
                                 for e in hit) and all(
                   from_cache(e, fld) for e in hit), f.node,
               'the cache-hit path does not register {} entries (from '
               'FindCacheEntry.{}) with the caller\'s dist'.format(
                   what, fld))
    # the hit path is taken only for cached searches and a miss is detected
    hit = [e for e in regs if from_cache(e)]
    ok = bool(hit) and all(param_of(e.control(), 'cache') for e in hit)
    ctx.ob(R, 'find_from_filter|hit-path-only-when-cache', ok, f.node,
           'cached results are replayed although cache=False')
    # order: the miss path registers found and extra entries interleaved, in
    # walk order, in ONE loop; the registration order is the order of the
    # dist file list. The hit path reproduces it only if it also registers
    # from one ordered sequence.
    if check_order:
        hf = [e for e in found if from_cache(e)]
        hx = [e for e in extra if from_cache(e)]
        single = any(set(map(id, a.loops())) & set(map(id, b.loops()))
                     for a in hf for b in hx)
        ctx.ob(R, 'find_from_filter|hit-path-keeps-registration-order',
               bool(single), f.node,
               'the cache keeps found and extra entries in two separate '
               'lists and the hit path registers them in two passes: after '
               'a lazy regeneration the sources (dist file list) are '
               'ordered differently from a fresh configure, which registers '
               'them interleaved in walk order')
    # the miss path records both lists in the cache
    for fn_, key in ((f, 'find_from_filter|records-found-and-extra'),
                     (F.fn(FIND + 'find_check_cache'),
                      'find_check_cache|refills-found-and-extra')):
        adds = [e for e in F.calls_to(fn_, 'add', depth=1)
                if has(e.recv(), "['find_cache']")]
        apps = F.effects(fn_, lambda e: e.name == 'append', depth=2)

        comps = [(n, g) for g in F.reach(fn_, 2)
                 if g.module is fn_.module for n in ast.walk(g.node)
                 if isinstance(n, ast.ListComp)]

        def comp_filled_under(alloc, member):
            """[p for p, m in <walk> if m == FindResult.<member>]"""
            for n, g in comps:
                if F.flow._alloc(n, g) not in alloc:
                    continue
                if not has_call(F.atoms(n.elt, g), '_find_files'):
                    continue
                for gen in n.generators:
                    for t in gen.ifs:
                        if isinstance(t, ast.Compare) and len(
                                t.ops) == 1 and isinstance(
                                    t.ops[0], ast.Eq) and (
                                has(F.atoms(t.left, g), 'FindResult',
                                    member) or
                                has(F.atoms(t.comparators[0], g),
                                    'FindResult', member)):
                            return True
            return False

        def filled_under(alloc, member):
            return comp_filled_under(alloc, member) or any(
                alloc & _allocs(e.recv()) and has_call(
                e.arg(0), '_find_files') and any(
                    op == 'Eq' and (has(l, 'FindResult', member) or
                                    has(r_, 'FindResult', member))
                    for op, l, r_ in F.guard_compares(e.call, e.fn, e.bind))
                for e in apps)
        ok = bool(adds)
        for e in adds:
            a1, a2 = _allocs(e.arg(1, kw='found')), _allocs(
                e.arg(2, kw='extra'))
            # containers reachable from only one of the two arguments
            a1, a2 = a1 - a2, a2 - a1
            ok = ok and bool(a1) and bool(a2) and \
                filled_under(a1, 'include') and filled_under(a2, 'not_now') \
                and not filled_under(a1, 'not_now') and \
                not filled_under(a2, 'include')
        ctx.ob(R, key, ok, fn_.node,
               'the walk does not record (filter, included paths, not_now '
               'paths) in the find cache')
    # the saved cache is all or nothing: find_check_cache replays only the
    # filters it finds in the file and treats them as the complete list of
    # searches, so an entry that cannot be serialised must take the whole
    # file down (only FindCacheFile.save may catch SerializationError, and
    # that path removes the file)
    sv = F.fn(FIND + 'FindCacheFile.save')
    catchers = []
    for m_ in repo.modules.values():
        if not m_.name.startswith('bfg9000.builtins'):
            continue
        for n_ in ast.walk(m_.tree):
            if isinstance(n_, ast.ExceptHandler) and n_.type is not None and \
                    'SerializationError' in unparse(n_.type):
                catchers.append((n_, repo.enclosing_func(n_)))
    ok = bool(catchers) and all(
        g is not None and F.only_called_from(g, {sv.fq})
        for n_, g in catchers)
    ctx.ob(R, 'FindCacheFile.save|only-catcher-of-SerializationError', ok,
           sv.node, 'an unserialisable search is skipped somewhere else '
           'than in FindCacheFile.save ({}): a partial cache is saved and '
           'the lazy check no longer sees every search'.format(
               ', '.join(sorted({g.fq if g else '?' for n_, g in catchers
                                 if g is None or g.fq != sv.fq}))))
    rm = F.effects(sv, lambda e: e.name in ('remove', 'unlink'), depth=1)
    ok = bool(rm) and not F.must(sv, lambda e: e.name == 'dump', depth=1)
    ctx.ob(R, 'FindCacheFile.save|removes-file-when-not-saved', bool(rm),
           sv.node, 'a cache that cannot be saved does not remove the old '
           'cache file')
    # not_now entries become plain files / directories
    ok = bool(extra) and all(
        not has(e.heads(), "['auto_file']") and not any(
            x in ('file_type', 'dir_type') for x in e.heads())
        for e in extra)
    ctx.ob(R, 'find_from_filter|extra-registered-as-generic', ok, f.node,
           'not_now entries are not registered as plain files/directories')
    # (de)serialisation keeps every field
    tj = F.fn(FIND + 'FindCache.to_json')
    r = F.returns(tj)
    sliced = any(isinstance(n, ast.Subscript) for n in ast.walk(tj.node))
    ctx.ob(R, 'FindCache.to_json|all-fields',
           has(r, '_cache', 'to_json()') and not sliced, tj.node,
           'the cache file does not contain every field of an entry')
    fj = F.fn(FIND + 'FindCache.from_json')
    cs = [e for e in F.effects(fj, lambda e: e.name in (
        '_make', 'FindCacheEntry'), depth=0)]
    ok = bool(cs) and all(has_call(e.all_args(), 'from_json') and
                          param_of(e.all_args(), 'data') for e in cs)
    ctx.ob(R, 'FindCache.from_json|all-fields', ok, fj.node,
           'entries are not rebuilt from every saved list')


# --------------------------------------------------------------------------
def _enum_order(ctx, R, cls_fq, order, label):
    repo = ctx.repo
    c = repo.cls(cls_fq)
    vals = {k: const_eval(repo, c.module, v) for k, v in c.attrs.items()}
    ok = all(k in vals for k in order) and \
        [vals[k] for k in order] == sorted(vals[k] for k in order) and \
        len({vals[k] for k in order}) == len(order)
    ctx.ob(R, label + '|order', ok, c.node,
           '{} values are {}'.format(label, {k: vals.get(k)
                                             for k in order}))
    return c


def result_lattice(ctx):
    R = 'RESULT-LATTICE'
    ctx.rule(R, 'FindResult / PathGlob.Result are ordered include < not_now '
             '< exclude < exclude_recursive (yes < no < never), & is max and '
             '| is min; the walk prunes only on exclude_recursive; only '
             'include results are returned, only not_now results go to the '
             'distribution-only registration; exclude patterns take '
             'precedence over include patterns over extra patterns')
    F = _facts(ctx)
    _enum_order(ctx, R, FIND + 'FindResult',
                ['include', 'not_now', 'exclude', 'exclude_recursive'],
                'FindResult')
    _enum_order(ctx, R, 'bfg9000.glob:PathGlob.Result',
                ['yes', 'no', 'never'], 'PathGlob.Result')
    for cls, label in ((FIND + 'FindResult', 'FindResult'),
                       ('bfg9000.glob:PathGlob.Result', 'PathGlob.Result')):
        for meth, agg in (('__and__', 'max'), ('__or__', 'min')):
            m = F.fn(cls + '.' + meth)
            r = F.returns(m)
            other = 'min' if agg == 'max' else 'max'
            ok = has_call(r, agg) and not has_call(r, other) and \
                has(r, 'self', 'value') and has(
                    r, Q.params(m.node)[1], 'value')
            ctx.ob(R, '{}.{}|{}'.format(label, meth, agg), ok, m.node,
                   '{} is not the {} of the two results'.format(meth, agg))
    b = F.fn(FIND + 'FindResult.__bool__')
    ok = has(F.returns(b), 'include') and any(
        isinstance(n, ast.Compare) and isinstance(n.ops[0], (ast.Eq, ast.Is))
        for n in ast.walk(b.node))
    ctx.ob(R, 'FindResult.__bool__|include-only', ok, b.node,
           'truthiness is not "== include"')
    ff = F.fn(FIND + '_find_files')
    # pruning = mutation of the walk's directory list: `del dirs[i]` for
    # recorded indices, `dirs[:] = [.. if i not in recorded]`, or
    # dirs.remove()/pop() -- the recorded set (or the direct mutation) must
    # depend on `match == exclude_recursive` and on nothing else
    dels, recorded, direct_mut, kept = [], set(), [], set()
    comp_tests = []
    for g in F.reach(ff, 2):
        if not g.module.name.endswith('builtins.find'):
            continue
        for n in walk_no_nested(g.node):
            if isinstance(n, ast.Delete):
                for t in n.targets:
                    if isinstance(t, ast.Subscript):
                        dels.append((t, g))
                        recorded |= _allocs(F.atoms(t.slice, g))
            elif isinstance(n, ast.Assign) and any(
                    isinstance(t, ast.Subscript) and isinstance(
                        t.slice, ast.Slice) for t in n.targets):
                comp = False
                for c in ast.walk(n.value):
                    if isinstance(c, ast.comprehension):
                        comp = True
                        for t in c.ifs:
                            recorded |= _allocs(F.atoms(t, g))
                            comp_tests.append((t, _allocs(F.atoms(t, g))))
                if not comp:
                    # dirs[:] = <list of the entries to keep>
                    kept |= {a for a in _allocs(F.atoms(n.value, g))
                             if a.startswith('alloc:' + g.node.name + '#')}
    for e in F.effects(ff, lambda e: e.name in ('remove', 'pop'), depth=2):
        if e.fn.module.name.endswith('builtins.find'):
            direct_mut.append(e)
    aps = [e for e in F.effects(ff, lambda e: e.name in ('append', 'add'),
                                depth=2)
           if _allocs(e.recv()) & recorded] + direct_mut
    def flag_form(e):
        """`flags.append(match != exclude_recursive)` for every entry, the
        list then filtered by the flag (`if keep` / `if not prune`)."""
        a = e.call.args[0] if len(e.call.args) == 1 else None
        if not (isinstance(a, ast.Compare) and len(a.ops) == 1 and
                isinstance(a.ops[0], (ast.Eq, ast.NotEq))):
            return False
        l, r_ = F.atoms(a.left, e.fn, e.bind), F.atoms(
            a.comparators[0], e.fn, e.bind)
        if not (has(l, 'FindResult', 'exclude_recursive') and has_call(
                r_, 'match') or has(r_, 'FindResult', 'exclude_recursive')
                and has_call(l, 'match')):
            return False
        if F.guards(e.call, e.fn):
            return False
        keep = isinstance(a.ops[0], ast.NotEq)
        tests = [t for t, al in comp_tests if al & _allocs(e.recv())]
        if not tests:
            return False
        for t in tests:
            neg = False
            while isinstance(t, ast.UnaryOp) and isinstance(t.op, ast.Not):
                neg, t = not neg, t.operand
            if not isinstance(t, ast.Name) or neg == keep:
                return False
        return True
    ok = bool(aps)
    for e in aps:
        if flag_form(e):
            continue
        cmp_ = F.guard_compares(e.call, e.fn, e.bind)
        ok = ok and any(op == 'Eq' and (
            has(l, 'FindResult', 'exclude_recursive') and has_call(
                r_, 'match') or has(r_, 'FindResult', 'exclude_recursive')
            and has_call(l, 'match')) for op, l, r_ in cmp_) and \
            len(F.guards(e.call, e.fn)) == 1
    # the complementary spelling: entries to *keep* are collected and
    # assigned back; an entry is kept exactly when its result is not
    # exclude_recursive
    keeps = [e for e in F.effects(ff, lambda e: e.name in ('append', 'add'),
                                  depth=2)
             if _allocs(e.recv()) & kept]
    if keeps and not aps:
        ok = True
        for e in keeps:
            cmp_ = F.guard_compares(e.call, e.fn, e.bind)
            ok = ok and any(op == 'NotEq' and (
                has(l, 'FindResult', 'exclude_recursive') and has_call(
                    r_, 'match') or has(r_, 'FindResult',
                                        'exclude_recursive')
                and has_call(l, 'match')) for op, l, r_ in cmp_) and \
                len(F.guards(e.call, e.fn)) == 1
    ctx.ob(R, '_find_files|prune-only-exclude_recursive', ok, ff.node,
           'directories are pruned on a weaker result than '
           'exclude_recursive (or not at all)')
    ok = all(has_call(F.atoms(t.slice, g), 'reversed') for t, g in dels)
    ctx.ob(R, '_find_files|prune-by-reverse-index', ok, ff.node,
           'pruned indices are deleted in forward order')
    fff = F.fn(FIND + 'find_from_filter')
    found, extra = _registrations(F, fff)
    walk_found = [e for e in found if has_call(e.arg(0), '_find_files')]
    walk_extra = [e for e in extra if has_call(e.arg(0), '_find_files')]
    ret = F.returns(fff)

    def eq_member(e, member):
        # the test may guard the registration itself or the call of the
        # helper that performs it
        return any(op == 'Eq' and (has(l, 'FindResult', member) or
                                   has(r_, 'FindResult', member))
                   for f_, n_ in e.path
                   for op, l, r_ in F.guard_compares(n_, f_))
    ok = bool(walk_found) and all(eq_member(e, 'include')
                                  for e in walk_found) and \
        bool(walk_extra) and all(eq_member(e, 'not_now') and
                                 not eq_member(e, 'include')
                                 for e in walk_extra) and \
        has(direct(ret), "['auto_file']") and not has(
            direct(ret), "['generic_file']")
    ctx.ob(R, 'find_from_filter|include->results,not_now->dist-only', ok,
           fff.node, 'the include/not_now split changed')
    # FileFilter._match_globs: exclude first, then include, then extra
    mg = F.fn(FIND + 'FileFilter._match_globs')
    by = {}
    def arms(v, c, d=0):
        """(value, control) of every arm of a returned conditional
        expression (through a single-definition local)."""
        if isinstance(v, ast.IfExp) and d < 3:
            c2 = c | F.atoms(v.test, mg)
            for nm in ast.walk(v.test):
                if isinstance(nm, ast.Name):
                    for dn in F._def_sites(nm.id, mg):
                        c2 = c2 | F.atoms(dn.value, mg)
            return arms(v.body, c2, d + 1) + arms(v.orelse, c2, d + 1)
        return [(v, c)]
    for r in Q.returns(mg.node):
        for v_, c in arms(r.value, F.control(r, mg)):
            for a in F.atoms(v_, mg):
                if a.startswith('FindResult.'):
                    by.setdefault(a.split('.')[1], []).append(c)
    EX, IN, XT = ('exclude', 'match()'), ('include', 'match()'), \
        ('extra', 'match()')
    ok = any(has(c, *EX) and not has(c, *IN) and not has(c, *XT)
             for c in by.get('exclude_recursive', [])) and \
        all(has(c, *EX) and has(c, *IN) and not has(c, *XT)
            for c in by.get('include', [])) and bool(by.get('include')) and \
        all(has(c, *EX) and has(c, *IN) and has(c, *XT)
            for c in by.get('not_now', [])) and bool(by.get('not_now')) and \
        all(has(c, *EX) and has(c, *IN) and has(c, *XT)
            for c in by.get('exclude', [])) and bool(by.get('exclude')) and \
        any(has(c, *XT) and has(c, 'PathGlob', 'Result', 'never')
            for c in by.get('exclude_recursive', []))
    ctx.ob(R, 'FileFilter._match_globs|precedence', ok, mg.node,
           'precedence exclude > include > extra > never > exclude changed')
    m = F.fn(FIND + 'FileFilter.match')
    ands = [n for n in ast.walk(m.node) if isinstance(n, ast.BinOp) and
            isinstance(n.op, ast.BitAnd)]
    ok = any(has_call(F.atoms(n.left, m) | F.atoms(n.right, m),
                      '_match_globs') and
             has(F.atoms(n.left, m) | F.atoms(n.right, m), 'filter_fn()')
             for n in ands)
    ctx.ob(R, 'FileFilter.match|filter-combined-with-&', ok, m.node,
           'the filter function result is not combined with & (max)')
    fp = F.fn(FIND + 'find_paths')
    ok = has(F.returns(fp), "['find_files']", 'path')
    ctx.ob(R, 'find_paths|via-find_files', ok, fp.node,
           'find_paths does not go through find_files')


# --------------------------------------------------------------------------
def source_registration(ctx):
    R = 'SOURCE-REGISTRATION'
    ctx.rule(R, 'every builtin that creates a file object from a name goes '
             'through static_file with the caller\'s dist flag; every '
             'add_source call is restricted to source-directory files, and '
             'static_file and Edge (extra_deps) perform one; the dist '
             'command lists build_inputs.sources() relative to srcdir')
    repo = ctx.repo
    F = _facts(ctx)
    sf = F.fn('bfg9000.builtins.file_types:static_file')
    n_sites = 0
    for m, c in Q.all_calls(repo):
        if Q.callee_attr(c) != 'add_source':
            continue
        fn = repo.enclosing_func(c)
        if fn is None:
            continue
        n_sites += 1
        cmps = F.guard_compares(c, fn)
        guarded = any(op == 'Eq' and (
            has(l, 'root') and has(r_, 'Root', 'srcdir') or
            has(r_, 'root') and has(l, 'Root', 'srcdir'))
            for op, l, r_ in cmps)
        ctx.ob(R, 'add_source-guard|' + fn.fq, guarded, c,
               'add_source is not restricted to source-directory files')
        # ... and to nothing else (besides the caller's dist flag): a file
        # named by a Path object is read by the build just like one named
        # by a string
        extra = []
        raise_tests = set()
        for n_ in walk_no_nested(fn.node):
            if isinstance(n_, ast.If) and n_.body and isinstance(
                    n_.body[-1], ast.Raise):
                raise_tests |= {id(x) for x in ast.walk(n_.test)}
        for t, pos in F.guard_truths(c, fn):
            if id(t) in raise_tests:
                continue            # argument validation
            a = F.atoms(t, fn)
            if has(a, 'root') and has(a, 'Root', 'srcdir'):
                continue
            if param_of(a, 'dist') or has(a, 'dist'):
                continue
            extra.append(unparse(t))
        ctx.ob(R, 'add_source-only-root-guard|' + fn.fq, not extra, c,
               'add_source is additionally conditional on {}: some files '
               'the build reads from srcdir are not registered'.format(
                   '; '.join(extra)[:120]))
    for want, what, depth in (
            ('bfg9000.builtins.file_types:static_file', 'files named by the '
             'script', 1),
            ('bfg9000.build_inputs:Edge.__init__', 'extra_deps given as '
             'names', 2)):
        f = F.fn(want)
        ok = bool(F.calls_to(f, 'add_source', depth=depth))
        ctx.ob(R, 'add_source-site|' + want, ok, f.node,
               '{} no longer registers {} as sources of the distribution'
               .format(want.split(':')[1], what))
    # only objects freshly created from a name are registered: an existing
    # file object already went through a builtin that honoured its dist flag
    import re as _re
    for want in ('bfg9000.builtins.file_types:static_file',
                 'bfg9000.build_inputs:Edge.__init__'):
        f = F.fn(want)
        for e in F.calls_to(f, 'add_source', depth=2):
            d = {a for a in direct(e.arg(0))
                 if not a.startswith(('const:', 'key:'))}
            fresh = bool(d) and all(_re.match(r'^[\w.]+\(.*\)$', a)
                                    for a in d)
            ctx.ob(R, 'add_source-fresh-object|' + e.fn.fq, fresh, e.call,
                   'add_source is applied to an object that was not created '
                   'here from a name ({}): the dist flag its creator '
                   'honoured is overridden'.format(sorted(d)[:4]))
    adds = F.calls_to(sf, 'add_source', depth=1)
    ok = bool(adds) and all(param_of(e.control(), 'dist') for e in adds)
    ctx.ob(R, 'static_file|dist-and-srcdir', ok, sf.node,
           'registration does not depend on the dist flag')
    # builtins decorated with @builtin.type(<File class>) that take a name
    n = 0
    for fi in sorted(repo.functions.values(), key=lambda f: f.fq):
        if not fi.module.name.startswith('bfg9000.builtins'):
            continue
        decs = [unparse(d) for d in fi.node.decorator_list]
        if not any(d.startswith('builtin.type(') for d in decs) or not any(
                d.startswith('builtin.function(') for d in decs):
            continue
        sfc = F.calls_to(fi, 'static_file', depth=1)
        if not sfc:
            continue
        n += 1
        ok = all(param_of(direct(e.arg(3, kw='dist')), 'dist') or
                 (has_const(e.arg(3, kw='dist'), 'dist') and
                  param_of(e.arg(3, kw='dist'), 'kwargs'))
                 for e in sfc)
        ctx.ob(R, '{}|forwards-dist'.format(fi.fq), ok, fi.node,
               '{} does not forward the caller\'s dist flag to '
               'static_file'.format(fi.qualname))
    ctx.ob(R, 'file-creating-builtins|found', n >= 6, None,
           'only {} builtins creating files through static_file were found '
           '(the rule would pass vacuously)'.format(n))
    # every builtin that accepts dist= forwards it to the helpers that
    # register files (_find, find_from_filter, static_file)
    for fi in sorted(repo.functions.values(), key=lambda f: f.fq):
        if not fi.module.name.startswith('bfg9000.builtins'):
            continue
        if 'dist' not in Q.params(fi.node):
            continue
        for e in F.effects(fi, lambda e: e.name in (
                '_find', 'find_from_filter', 'static_file'), depth=0):
            d = e.arg(kw='dist')
            if not d and e.name == 'static_file':
                d = e.arg(3)
            ok = param_of(direct(d), 'dist')
            ctx.ob(R, '{}|{}-forwards-dist'.format(fi.fq, e.name), ok,
                   e.call, '{} accepts dist= but calls {} without '
                   'forwarding it: files of a dist=False object are shipped '
                   '(or the reverse)'.format(fi.qualname, e.name))
    srcs = F.fn('bfg9000.build_inputs:BuildInputs.sources')
    r = F.returns(srcs)
    ok = has(r, 'bootstrap_paths') and has(r, '_sources')
    ctx.ob(R, 'BuildInputs.sources|bootstrap+sources', ok, srcs.node,
           'sources() does not consist of the bootstrap files and the '
           'registered sources')
    asrc = F.fn('bfg9000.build_inputs:BuildInputs.add_source')
    ok = any(has(t, '_sources') and param_of(v, Q.params(asrc.node)[1])
             for t, v, n_ in F.stores(asrc)) or any(
        has(e.recv(), '_sources') for e in F.effects(
            asrc, lambda e: e.name in ('append', 'add', 'setdefault',
                                       'update'), depth=0))
    ctx.ob(R, 'BuildInputs.add_source|stores', ok, asrc.node,
           'add_source does not record the source')
    dc = F.fn('bfg9000.builtins.dist:_dist_command')
    arch = [e for e in F.effects(dc, lambda e: e.callee_is("tool('doppel')"), depth=1)]
    srcdir_ok = ok = bool(arch)
    for e in arch:
        a = e.all_args()
        ok = ok and has(a, 'sources()', 'path', 'relpath()') and \
            not has_call(e.arg(1), 'if') and not has_call(e.arg(1), 'filter')
        d = e.arg(kw='directory')
        srcdir_ok = srcdir_ok and has(d, 'Root', 'srcdir') and \
            has_const(d, '.')
    ctx.ob(R, '_dist_command|all-sources-relative-to-srcdir', ok, dc.node,
           'the archive command does not list every source relative to the '
           'source directory')
    ctx.ob(R, '_dist_command|srcdir', srcdir_ok, dc.node,
           'archive base directory is not the source directory')
    ed = F.fn('bfg9000.builtins.dist:extra_dist')
    effs = F.effects(ed, lambda e: True, depth=0)
    ok = any(has(e.heads(), "['generic_file']") and param_of(
        e.arg(0), 'files') for e in effs) and any(
        has(e.heads(), "['directory']") and param_of(e.arg(0), 'dirs')
        for e in effs)
    ctx.ob(R, 'extra_dist|registers', ok, ed.node,
           'extra_dist does not register its files/dirs')
