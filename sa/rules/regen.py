"""Rules shared by C08, C11, C18: REGEN-INPUTS, FIND-DIRS, CACHE-REPLAY,
RESULT-LATTICE, SOURCE-REGISTRATION."""
import ast

from ..cfg import build as build_cfg
from ..consteval import const_eval
from ..index import AnalysisError, unparse, walk_no_nested
from .. import query as Q

FIND = 'bfg9000.builtins.find:'
REGEN = 'bfg9000.builtins.regenerate:'
BUILD = 'bfg9000.build:'


def _inside_with(node, pred):
    n = getattr(node, '_parent', None)
    while n is not None:
        if isinstance(n, ast.With) and any(pred(i) for i in n.items):
            return True
        n = getattr(n, '_parent', None)
    return False


def regen_inputs(ctx):
    R = 'REGEN-INPUTS'
    ctx.rule(R, 'every executed script is recorded (exec inside '
             'context.push_path, which appends to seen_paths), all of them '
             'become bootstrap paths, and the regenerate rule of both '
             'backends depends on bootstrap paths + toolchain file + mopack '
             'metadata and declares the build file + every immediate file as '
             'outputs')
    repo = ctx.repo
    ex = repo.func(BUILD + '_execute_script')
    execs = [c for c in Q.calls(ex.node) if unparse(c.func) == 'exec']
    Q.require(len(execs) == 1, '_execute_script: exec call not found')
    ok = _inside_with(execs[0], lambda i: unparse(i.context_expr) ==
                      'context.push_path(path)')
    ctx.ob(R, '_execute_script|exec-inside-push_path', ok, execs[0],
           'the script is executed outside context.push_path(path): it is '
           'not recorded as a regeneration input')
    # the executed code is the file that was opened for `path`
    ef = repo.func(BUILD + 'execute_file')
    ok = any(unparse(c) == "open(path.string(context.env.base_dirs), 'r')"
             for c in Q.calls(ef.node)) and any(
        unparse(c.func) == '_execute_script' and unparse(c.args[2]) == 'path'
        for c in Q.calls(ef.node))
    ctx.ob(R, 'execute_file|same-path-read-and-recorded', ok, ef.node,
           'the path recorded differs from the file that is read')
    pp = repo.method('bfg9000.builtins.builtin:StackContext', 'push_path')
    g = build_cfg(pp.node)
    ap = [g.stmt_of(c) for c in Q.calls(pp.node, nested=False)
          if unparse(c) == 'self.seen_paths.append(path)']
    ok = len(ap) == 1 and all(
        g.dominates(ap[0], g.stmt_of(y)) for y in ast.walk(pp.node)
        if isinstance(y, ast.Yield))
    ctx.ob(R, 'StackContext.push_path|records-seen_paths', ok, pp.node,
           'push_path does not record every pushed path in seen_paths')
    sub = repo.func('bfg9000.builtins.core:submodule')
    ok = any(unparse(c.func) == 'build.execute_file' and unparse(
        c.args[0]) == 'context' for c in Q.calls(sub.node))
    ctx.ob(R, 'submodule|executes-through-execute_file', ok, sub.node,
           'submodule scripts are not executed through execute_file')
    cb = repo.func(BUILD + 'configure_build')
    loops = [n for n in walk_no_nested(cb.node) if isinstance(n, ast.For) and
             any(unparse(c) == 'build.add_bootstrap(i)' for c in Q.calls(n))]
    ok = len(loops) == 1 and unparse(loops[0].iter) == \
        'chain(context.seen_paths[1:], opts_paths)'
    ctx.ob(R, 'configure_build|seen_paths+options->bootstrap', ok, cb.node,
           'not every executed script (submodules, options.bfg) becomes a '
           'bootstrap path')
    bi = repo.method('bfg9000.build_inputs:BuildInputs', '__init__')
    ok = any(unparse(c) == 'self.add_bootstrap(bfgpath)'
             for c in Q.calls(bi.node))
    ctx.ob(R, 'BuildInputs.__init__|build.bfg-is-bootstrap', ok, bi.node,
           'the main build.bfg is not a bootstrap path')
    eo = repo.func(BUILD + '_execute_options')
    rets = [unparse(r.value) for r in Q.returns(eo.node)]
    ctx.ob(R, '_execute_options|returns-seen_paths',
           '(parser, context.seen_paths)' in rets, eo.node,
           'options.bfg (and its submodules) are not reported as executed')
    inp = repo.func(REGEN + '_inputs')
    r = Q.returns(inp.node)
    t = unparse(r[-1].value) if r else ''
    ok = 'build_inputs.bootstrap_paths' in t and \
        'listify(env.toolchain.path)' in t and 'extra' in t
    ctx.ob(R, '_inputs|bootstrap+toolchain+mopack', ok, inp.node,
           'regeneration inputs are {}'.format(t))
    ok = any("env.tool('mopack').metadata_file" in unparse(v) for v in
             Q.local_assignments(inp.node, 'extra') if v is not None)
    ctx.ob(R, '_inputs|mopack-metadata', ok, inp.node,
           'mopack metadata file is not a regeneration input')
    outp = repo.func(REGEN + '_outputs')
    t = unparse(Q.returns(outp.node)[0].value)
    ok = 'list_backends()[env.backend].filepath' in t and \
        "build_inputs['regenerate'].outputs" in t
    ctx.ob(R, '_outputs|build-file+immediate-files', ok, outp.node,
           'regeneration outputs are {}'.format(t))
    mif = repo.func('bfg9000.builtins.file_types:make_immediate_file')
    ok = any(unparse(c) == "context.build['regenerate'].outputs.append(file)"
             for c in Q.calls(mif.node))
    ctx.ob(R, 'make_immediate_file|registers-output', ok, mif.node,
           'files written at configure time are not declared as outputs of '
           'the regeneration step')
    for fq, call, okw, ikw in (
            (REGEN + 'make_regenerate_rule', 'make.multitarget_rule',
             'targets', 'deps'),
            (REGEN + 'ninja_regenerate_rule', 'buildfile.build', 'output',
             'implicit')):
        f = repo.func(fq)
        hit = [c for c in Q.calls(f.node) if unparse(c.func) == call and
               unparse(Q.kwarg(c, okw) or ast.Constant(0)) ==
               '_outputs(build_inputs, env)']
        ok = len(hit) == 1 and unparse(Q.kwarg(hit[0], ikw)) == \
            '_inputs(build_inputs, env)'
        ctx.ob(R, fq.split(':')[1] + '|uses-_inputs/_outputs', ok, f.node,
               'the regenerate rule does not use _inputs/_outputs')
        ok = any("bfg9000('regenerate', lazy=True)" in unparse(c)
                 for c in Q.calls(f.node))
        ctx.ob(R, fq.split(':')[1] + '|runs-regenerate', ok, f.node,
               'the regenerate rule does not run `bfg9000 regenerate`')
    f = repo.func(REGEN + 'ninja_regenerate_rule')
    ok = any(unparse(Q.kwarg(c, 'generator') or ast.Constant(0)) == 'True'
             and unparse(Q.kwarg(c, 'depfile') or ast.Constant(0)) ==
             "build_inputs['regenerate'].depfile"
             for c in Q.calls(f.node) if unparse(c.func) == 'buildfile.rule'
             and unparse(Q.kwarg(c, 'name') or ast.Constant(0)) ==
             "'regenerate'")
    ctx.ob(R, 'ninja_regenerate_rule|generator+depfile', ok, f.node,
           'ninja regenerate rule is not a generator rule with the find '
           'depfile')


def find_dirs(ctx):
    R = 'FIND-DIRS'
    ctx.rule(R, 'every directory walked by a cached find_files is added to '
             'find_dirs, the depfile is requested, both backends write the '
             'depfile from find_dirs, Make includes it and Ninja names it as '
             'the regenerate rule\'s depfile')
    repo = ctx.repo
    ff = repo.func(FIND + '_find_files')
    loops = [n for n in walk_no_nested(ff.node) if isinstance(n, ast.For) and
             'walk(' in unparse(n.iter)]
    ok = len(loops) == 1 and isinstance(loops[0].body[0], ast.If) and \
        unparse(loops[0].body[0].test) == 'seen_dirs is not None' and \
        unparse(loops[0].body[0].body[0]) == 'seen_dirs.append(base)'
    ctx.ob(R, '_find_files|every-walked-dir-recorded', ok, ff.node,
           'walked directories are not all recorded in seen_dirs')
    fff = repo.func(FIND + 'find_from_filter')
    ok = any(unparse(c) == "context.build['find_dirs'].update(seen_dirs)" and
             _under_if(c, 'cache') for c in Q.calls(fff.node))
    ctx.ob(R, 'find_from_filter|find_dirs.update', ok, fff.node,
           'walked directories of a cached search are not added to '
           'find_dirs')
    ok = any(unparse(c.func) == '_find_files' and len(c.args) == 3 and
             unparse(c.args[2]) == 'seen_dirs' for c in Q.calls(fff.node))
    ctx.ob(R, 'find_from_filter|passes-seen_dirs', ok, fff.node,
           'seen_dirs is not passed to the walk')
    fcc = repo.func(FIND + 'find_check_cache')
    ok = any(unparse(c) == "context.build['find_dirs'].update(seen_dirs)"
             for c in Q.calls(fcc.node))
    ctx.ob(R, 'find_check_cache|find_dirs.update', ok, fcc.node,
           'directories walked by the cache re-check are not recorded')
    f = repo.func(FIND + 'find_files')
    ok = any(isinstance(n, ast.Assign) and unparse(n.targets[0]) ==
             "context.build['regenerate'].depfile" and unparse(n.value) ==
             'depfile_name' and _under_if(n, 'cache')
             for n in ast.walk(f.node))
    ctx.ob(R, 'find_files|requests-depfile', ok, f.node,
           'a cached find_files does not request the directory depfile')
    for b, fq in (('make', FIND + 'make_find_dirs'),
                  ('ninja', FIND + 'ninja_find_dirs')):
        h = repo.func(fq)
        wd = [c for c in Q.calls(h.node) if unparse(c.func) ==
              'write_depfile']
        ok = len(wd) == 1 and unparse(wd[0].args[1]) == \
            'Path(depfile_name)' and unparse(wd[0].args[2]) == \
            b + '.filepath' and unparse(wd[0].args[3]) == \
            "build_inputs['find_dirs']"
        ctx.ob(R, fq.split(':')[1] + '|writes-depfile-from-find_dirs', ok,
               h.node, 'the depfile is not written for the build file from '
               'find_dirs')
        if b == 'make':
            ok = any(unparse(c) == 'buildfile.include(depfile_name)'
                     for c in Q.calls(h.node)) and Q.kwarg(
                         wd[0], 'makeify') is not None
            ctx.ob(R, 'make_find_dirs|include+makeify', ok, h.node,
                   'Make does not include the depfile (with empty rules '
                   'for deleted directories)')
    # the lazy re-check walks the tree again: a change in the set of walked
    # directories must either force a regeneration or be written to the
    # depfile before the run is aborted -- otherwise a directory created
    # since the last run is never watched
    rw = [n for n in ast.walk(fcc.node) if isinstance(n, ast.Assign) and
          unparse(n.targets[0]) == 'regenerate' and isinstance(
              n.value, ast.BoolOp)]
    in_decision = any('seen_dirs' in unparse(n.value) or 'find_dirs' in
                      unparse(n.value) for n in rw)
    raises = [n for n in ast.walk(fcc.node) if isinstance(n, ast.Raise)]
    rewrites = [c for c in Q.calls(fcc.node) if unparse(c.func) ==
                'write_depfile']
    ctx.ob(R, 'find_check_cache|new-directories-tracked-when-skipping',
           in_decision or bool(rewrites), fcc.node,
           'the directories found by the lazy re-check are neither compared '
           'in the skip decision nor written to the depfile before the run '
           'is aborted: a directory created since the last regeneration is '
           'never watched')
    # Make: the depfile adds the walked directories as prerequisites of a
    # *target name*; that must be the target that carries the regenerate
    # recipe. The regenerate rule goes through multitarget_rule, which moves
    # the recipe to `<first output>.stamp` as soon as there is more than one
    # output (any immediate file, e.g. a .pc file).
    mrr = repo.func(REGEN + 'make_regenerate_rule')
    via_multi = any(unparse(c.func) == 'make.multitarget_rule' and unparse(
        Q.kwarg(c, 'targets') or ast.Constant(0)) ==
        '_outputs(build_inputs, env)' for c in Q.calls(mrr.node))
    mfd = repo.func(FIND + 'make_find_dirs')
    wd_ = [c for c in Q.calls(mfd.node) if unparse(c.func) == 'write_depfile']
    const_target = bool(wd_) and unparse(wd_[0].args[2]) == 'make.filepath'
    ctx.ob(R, 'make_find_dirs|depfile-target-carries-the-recipe',
           not (via_multi and const_target), mfd.node,
           'the depfile names `Makefile` as the target that depends on the '
           'searched directories, but with more than one regeneration '
           'output the recipe sits on `Makefile.stamp` (multitarget_rule): '
           'a directory change then never triggers a regeneration')
    wdf = repo.func(FIND + 'write_depfile')
    loops = [n for n in walk_no_nested(wdf.node) if isinstance(n, ast.For)
             and unparse(n.iter) == 'seen_dirs']
    ctx.ob(R, 'write_depfile|all-dirs', len(loops) >= 1, wdf.node,
           'the depfile does not list every seen directory')


def _under_if(node, test_text):
    n = getattr(node, '_parent', None)
    while n is not None:
        if isinstance(n, ast.If) and unparse(n.test) == test_text:
            return True
        n = getattr(n, '_parent', None)
    return False


def cache_replay(ctx, check_order=False):
    R = 'CACHE-REPLAY'
    ctx.rule(R, 'the cache-hit path of find_from_filter replays every '
             'field of a FindCacheEntry that the miss path records: found '
             'entries through `types`, extra (not_now) entries through '
             '`extra_types`, both with the caller\'s dist flag')
    repo = ctx.repo
    fc = repo.cls(FIND + 'FindCache')
    nt = fc.attrs.get('FindCacheEntry')
    Q.require(nt is not None and isinstance(nt, ast.Call),
              'FindCache.FindCacheEntry namedtuple not found')
    fields = const_eval(repo, fc.module, nt.args[1])
    Q.require(isinstance(fields, list) and fields, 'FindCacheEntry fields')
    f = repo.func(FIND + 'find_from_filter')
    # split: statements of the `if cache:` block that contains the try with
    # `except KeyError` (hit path) vs. the rest (miss path)
    hit_block = None
    for st in f.node.body:
        if isinstance(st, ast.If) and unparse(st.test) == 'cache' and any(
                isinstance(s, ast.Try) for s in st.body):
            hit_block = st
    Q.require(hit_block is not None, 'find_from_filter: cache-hit block not '
              'found')
    tries = [s for s in hit_block.body if isinstance(s, ast.Try)]
    ok = any(unparse(h.type) == 'KeyError' for t in tries
             for h in t.handlers if h.type is not None)
    ctx.ob(R, 'find_from_filter|miss-falls-through-on-KeyError', ok,
           hit_block, 'a cache miss is not detected by KeyError')
    hit_attrs = {n.attr for n in ast.walk(hit_block)
                 if isinstance(n, ast.Attribute)}
    idx_used = {n.slice.value for n in ast.walk(hit_block)
                if isinstance(n, ast.Subscript) and isinstance(
                    n.slice, ast.Constant) and isinstance(
                        n.slice.value, int)}
    for i, fld in enumerate(fields):
        ctx.ob(R, 'find_from_filter|hit-path-replays|' + fld,
               fld in hit_attrs or i in idx_used, hit_block,
               'the cache-hit path never reads FindCacheEntry.{}: entries '
               'recorded as {} on the first run are not registered again '
               'after a lazy regeneration'.format(fld, fld))

    def reg_calls(scope, table):
        out = []
        for n in ast.walk(scope):
            if isinstance(n, ast.Call) and isinstance(
                    n.func, ast.Subscript) and unparse(
                        n.func.value) == table:
                out.append(n)
        return out
    for table, what in (('types', 'found'), ('extra_types', 'extra')):
        hit = reg_calls(hit_block, table)
        miss = [c for st in f.node.body if st is not hit_block
                for c in reg_calls(st, table)]
        ctx.ob(R, 'find_from_filter|miss-path-registers|' + table,
               bool(miss) and all(unparse(Q.kwarg(c, 'dist') or
                                          ast.Constant(0)) == 'dist'
                                  for c in miss), f.node,
               'the miss path does not register {} entries with the '
               'caller\'s dist'.format(what))
        ctx.ob(R, 'find_from_filter|hit-path-registers|' + table,
               bool(hit) and all(unparse(Q.kwarg(c, 'dist') or
                                         ast.Constant(0)) == 'dist'
                                 for c in hit), hit_block,
               'the cache-hit path does not register {} entries (through '
               '`{}`) with the caller\'s dist'.format(what, table))
    # order: the miss path registers found and extra entries interleaved, in
    # walk order, in ONE loop; the registration order is the order of the
    # dist file list. The hit path reproduces it only if it also registers
    # from one ordered sequence.
    hit_loops = [n for n in ast.walk(hit_block) if isinstance(
        n, (ast.For, ast.ListComp, ast.GeneratorExp)) and (
            reg_calls(n, 'types') or reg_calls(n, 'extra_types'))]
    outer = [n for n in hit_loops if not any(
        m is not n and any(x is n for x in ast.walk(m)) for m in hit_loops)]
    single = len(outer) == 1 and reg_calls(outer[0], 'types') and \
        reg_calls(outer[0], 'extra_types')
    if check_order:
        ctx.ob(R, 'find_from_filter|hit-path-keeps-registration-order',
           bool(single), hit_block,
           'the cache keeps found and extra entries in two separate lists '
           'and the hit path registers them in two passes: after a lazy '
           'regeneration the sources (dist file list) are ordered '
           'differently from a fresh configure, which registers them '
           'interleaved in walk order')
    # the miss path records both lists in the cache
    adds = [c for c in Q.calls(f.node) if unparse(c.func) ==
            "context.build['find_cache'].add"]
    ok = len(adds) == 1 and [unparse(a) for a in adds[0].args] == [
        'file_filter', 'found', 'extra']
    ctx.ob(R, 'find_from_filter|records-found-and-extra', ok, f.node,
           'the miss path does not record (file_filter, found, extra)')
    # the two type tables
    t1 = [unparse(v) for v in Q.local_assignments(f.node, 'types')
          if v is not None]
    t2 = [unparse(v) for v in Q.local_assignments(f.node, 'extra_types')
          if v is not None]
    ctx.ob(R, 'find_from_filter|extra-registered-as-generic', t2 == [
        "{'f': context['generic_file'], 'd': context['directory']}"], f.node,
        'not_now entries are not registered as plain files/directories')
    # find_check_cache refills the cache with both lists
    fcc = repo.func(FIND + 'find_check_cache')
    adds = [c for c in Q.calls(fcc.node) if unparse(c.func) ==
            "context.build['find_cache'].add"]
    ok = len(adds) == 1 and [unparse(a) for a in adds[0].args] == [
        'file_filter', 'found', 'extra']
    ctx.ob(R, 'find_check_cache|refills-found-and-extra', ok, fcc.node,
           'the lazy re-check does not refill both lists')
    # (de)serialisation keeps both lists
    tj = repo.method(FIND + 'FindCache', 'to_json')
    ok = 'for matches in cache' in unparse(tj.node)
    ctx.ob(R, 'FindCache.to_json|all-fields', ok, tj.node,
           'the cache file does not contain every field of an entry')
    fj = repo.method(FIND + 'FindCache', 'from_json')
    ok = 'FindCacheEntry._make(' in unparse(fj.node) and \
        'for matches in v' in unparse(fj.node)
    ctx.ob(R, 'FindCache.from_json|all-fields', ok, fj.node, '')


def result_lattice(ctx):
    R = 'RESULT-LATTICE'
    ctx.rule(R, 'FindResult / PathGlob.Result are ordered include < not_now '
             '< exclude < exclude_recursive (yes < no < never), & is max and '
             '| is min; the walk prunes only on exclude_recursive; only '
             'include results are returned, only not_now results go to the '
             'distribution-only registration')
    repo = ctx.repo
    fr = repo.cls(FIND + 'FindResult')
    vals = {k: const_eval(repo, fr.module, v) for k, v in fr.attrs.items()}
    order = ['include', 'not_now', 'exclude', 'exclude_recursive']
    ok = all(k in vals for k in order) and \
        [vals[k] for k in order] == sorted(vals[k] for k in order) and \
        len({vals[k] for k in order}) == 4
    ctx.ob(R, 'FindResult|order', ok, fr.node,
           'FindResult values are {}'.format(vals))
    a = fr.methods.get('__and__')
    o = fr.methods.get('__or__')
    ok = a is not None and 'max(self.value, rhs.value)' in unparse(a)
    ctx.ob(R, 'FindResult.__and__|max', ok, a, '& is not the maximum '
           '(most exclusive) of the two results')
    ok = o is not None and 'min(self.value, rhs.value)' in unparse(o)
    ctx.ob(R, 'FindResult.__or__|min', ok, o, '| is not the minimum')
    b = fr.methods.get('__bool__')
    ok = b is not None and 'self == self.include' in unparse(b)
    ctx.ob(R, 'FindResult.__bool__|include-only', ok, b,
           'truthiness is not "== include"')
    pr = repo.cls('bfg9000.glob:PathGlob.Result')
    vals = {k: const_eval(repo, pr.module, v) for k, v in pr.attrs.items()}
    order = ['yes', 'no', 'never']
    ok = all(k in vals for k in order) and [vals[k] for k in order] == \
        sorted(vals[k] for k in order) and len({vals[k] for k in order}) == 3
    ctx.ob(R, 'PathGlob.Result|order', ok, pr.node,
           'PathGlob.Result values are {}'.format(vals))
    for nm, fn_, txt in (('__and__', pr.methods.get('__and__'), 'max('),
                         ('__or__', pr.methods.get('__or__'), 'min(')):
        ctx.ob(R, 'PathGlob.Result.' + nm, fn_ is not None and txt in
               unparse(fn_), fn_ or pr.node, nm + ' changed')
    ff = repo.func(FIND + '_find_files')
    pr_ifs = [n for n in ast.walk(ff.node) if isinstance(n, ast.If) and any(
        'to_remove.append' in unparse(s) for s in n.body)]
    ok = len(pr_ifs) == 1 and unparse(pr_ifs[0].test) == \
        'm == FindResult.exclude_recursive'
    ctx.ob(R, '_find_files|prune-only-exclude_recursive', ok, ff.node,
           'directories are pruned on a weaker result than '
           'exclude_recursive')
    ok = any(isinstance(n, ast.For) and unparse(n.iter) ==
             'reversed(to_remove)' for n in ast.walk(ff.node))
    ctx.ob(R, '_find_files|prune-by-reverse-index', ok, ff.node,
           'pruned indices are deleted in forward order')
    # every dir and file of every walked dir is yielded with its match
    ys = [n for n in ast.walk(ff.node) if isinstance(n, ast.Yield)]
    ctx.ob(R, '_find_files|yields-bases-dirs-files', len(ys) == 3, ff.node,
           'not every base/dir/file is reported')
    fff = repo.func(FIND + 'find_from_filter')
    branches = [n for n in ast.walk(fff.node) if isinstance(n, ast.If) and
                unparse(n.test) == 'matched == FindResult.include']
    ok = len(branches) == 1 and any('results.append(types[' in unparse(s)
                                    for s in branches[0].body)
    if ok:
        el = branches[0].orelse
        ok = len(el) == 1 and isinstance(el[0], ast.If) and unparse(
            el[0].test) == 'matched == FindResult.not_now' and any(
                'extra_types[' in unparse(s) for s in el[0].body) and \
            not any('results.append' in unparse(s) for s in el[0].body)
    ctx.ob(R, 'find_from_filter|include->results,not_now->dist-only', ok,
           fff.node, 'the include/not_now split changed')
    ok = unparse(Q.returns(fff.node)[-1].value) == 'results'
    ctx.ob(R, 'find_from_filter|returns-results', ok, fff.node, '')
    # FileFilter._match_globs: exclude first, then include, then extra
    mg = repo.method(FIND + 'FileFilter', '_match_globs')
    rets = [unparse(r.value) for r in sorted(
        Q.returns(mg.node), key=lambda r: r.lineno)]
    ok = rets == ['FindResult.exclude_recursive', 'FindResult.include',
                  'FindResult.not_now', 'FindResult.exclude_recursive',
                  'FindResult.exclude']
    ctx.ob(R, 'FileFilter._match_globs|precedence', ok, mg.node,
           'precedence exclude > include > extra > never > exclude changed: '
           '{}'.format(rets))
    m = repo.method(FIND + 'FileFilter', 'match')
    ok = 'result & self.filter_fn(path)' in unparse(m.node)
    ctx.ob(R, 'FileFilter.match|filter-combined-with-&', ok, m.node,
           'the filter function result is not combined with & (max)')
    fp = repo.func(FIND + 'find_paths')
    ok = "[i.path for i in context['find_files'](*args, **kwargs)]" in \
        unparse(fp.node)
    ctx.ob(R, 'find_paths|via-find_files', ok, fp.node,
           'find_paths does not go through find_files')


def source_registration(ctx):
    R = 'SOURCE-REGISTRATION'
    ctx.rule(R, 'every builtin that creates a file object from a name goes '
             'through static_file with the caller\'s dist flag; static_file '
             'and Edge.make are the only callers of add_source and guard on '
             'Root.srcdir; the dist command lists build_inputs.sources() '
             'relative to srcdir')
    repo = ctx.repo
    sf = repo.func('bfg9000.builtins.file_types:static_file')
    # who calls add_source
    callers = []
    for m, c in Q.all_calls(repo):
        if Q.callee_attr(c) == 'add_source':
            callers.append((m, c))
    for m, c in callers:
        fn = repo.enclosing_func(c)
        ok = fn is not None and fn.fq in (
            'bfg9000.builtins.file_types:static_file',
            'bfg9000.build_inputs:Edge.__init__.make')
        ctx.ob(R, 'add_source-caller|' + (fn.fq if fn else m.name), ok, c,
               'add_source is called outside static_file / Edge.make')
        # guard on srcdir
        p = c
        guarded = False
        while p is not None:
            if isinstance(p, ast.If) and 'Root.srcdir' in unparse(p.test):
                guarded = True
            p = getattr(p, '_parent', None)
        ctx.ob(R, 'add_source-guard|' + (fn.fq if fn else m.name), guarded,
               c, 'add_source is not restricted to source-directory files')
    have = {repo.enclosing_func(c).fq for m, c in callers
            if repo.enclosing_func(c) is not None}
    for want, what in (
            ('bfg9000.builtins.file_types:static_file', 'files named by the '
             'script'),
            ('bfg9000.build_inputs:Edge.__init__.make', 'extra_deps given as '
             'names')):
        ctx.ob(R, 'add_source-site|' + want, want in have, None,
               '{} no longer registers {} as sources of the distribution'
               .format(want.split(':')[1], what))
    g = [n for n in walk_no_nested(sf.node) if isinstance(n, ast.If) and
         'dist' in unparse(n.test) and 'Root.srcdir' in unparse(n.test)]
    ok = len(g) == 1 and unparse(g[0].test) == \
        'dist and path.root == Root.srcdir'
    ctx.ob(R, 'static_file|dist-and-srcdir', ok, sf.node,
           'registration is not exactly "dist and path.root == srcdir"')
    # builtins decorated with @builtin.type(<File class>) that take a name
    n = 0
    for fi in sorted(repo.functions.values(), key=lambda f: f.fq):
        if not fi.module.name.startswith('bfg9000.builtins'):
            continue
        decs = [unparse(d) for d in fi.node.decorator_list]
        if not any(d.startswith('builtin.type(') for d in decs) or not any(
                d.startswith('builtin.function(') for d in decs):
            continue
        sfc = [c for c in Q.calls(fi.node) if unparse(c.func) ==
               'static_file']
        params = Q.params(fi.node)
        if not sfc:
            # creates files only from other objects (copy_file, object_files,
            # generated_source, man_page handled through static_file ...)
            continue
        n += 1
        for c in sfc:
            d = Q.arg(c, 3, 'dist')
            ok = d is not None and unparse(d) == 'dist'
            ctx.ob(R, '{}|forwards-dist'.format(fi.fq), ok, c,
                   '{} does not forward the caller\'s dist flag to '
                   'static_file'.format(fi.qualname))
        # dist comes from the caller (kw-only param or kwargs.pop)
        has = 'dist' in params or any(
            unparse(v) == "kwargs.pop('dist', True)"
            for v in Q.local_assignments(fi.node, 'dist') if v is not None)
        ctx.ob(R, '{}|accepts-dist'.format(fi.fq), has, fi.node,
               '{} does not accept dist='.format(fi.qualname))
    ctx.require_min(R, n, 12, 'file-creating builtins')
    # every builtin that accepts dist= forwards it to the helpers that
    # register files (_find, find_from_filter, static_file)
    for fi in sorted(repo.functions.values(), key=lambda f: f.fq):
        if not fi.module.name.startswith('bfg9000.builtins'):
            continue
        if 'dist' not in Q.params(fi.node):
            continue
        for c in Q.calls(fi.node, nested=False):
            nm = unparse(c.func)
            if nm in ('_find', 'find_from_filter', 'static_file'):
                d = Q.kwarg(c, 'dist')
                if d is None and nm == 'static_file':
                    d = Q.arg(c, 3, 'dist')
                ok = d is not None and unparse(d) == 'dist'
                ctx.ob(R, '{}|{}-forwards-dist'.format(fi.fq, nm), ok, c,
                       '{} accepts dist= but calls {} without forwarding '
                       'it: files of a dist=False object are shipped (or '
                       'the reverse)'.format(fi.qualname, nm))
    # header_directory / directory register their files
    for fq in ('bfg9000.builtins.file_types:directory',
               'bfg9000.builtins.file_types:header_directory'):
        if repo.has_func(fq):
            f = repo.func(fq)
            ok = any(unparse(c.func) == 'static_file' for c in
                     Q.calls(f.node))
            ctx.ob(R, fq.split(':')[1] + '|static_file', ok, f.node, '')
    srcs = repo.method('bfg9000.build_inputs:BuildInputs', 'sources')
    t = unparse(Q.returns(srcs.node)[0].value)
    ok = 'self.bootstrap_paths' in t and 'self._sources.values()' in t
    ctx.ob(R, 'BuildInputs.sources|bootstrap+sources', ok, srcs.node,
           'sources() is {}'.format(t))
    dc = repo.func('bfg9000.builtins.dist:_dist_command')
    ok = '[i.path.relpath(srcdir) for i in build_inputs.sources()]' in \
        unparse(dc.node) and 'directory=srcdir' in unparse(dc.node)
    ctx.ob(R, '_dist_command|all-sources-relative-to-srcdir', ok, dc.node,
           'the archive command does not list every source relative to the '
           'source directory')
    vals = [unparse(v) for v in Q.local_assignments(dc.node, 'srcdir')
            if v is not None]
    ctx.ob(R, '_dist_command|srcdir', vals == ["Path('.', Root.srcdir)"],
           dc.node, 'archive base directory is {}'.format(vals))
    ed = repo.func('bfg9000.builtins.dist:extra_dist')
    ok = "context['generic_file'](i)" in unparse(ed.node) and \
        "context['directory'](i, include='*')" in unparse(ed.node)
    ctx.ob(R, 'extra_dist|registers', ok, ed.node, '')
