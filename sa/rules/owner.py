"""RULE-OWNER: each produced file gets exactly one producing rule.

 * only `Makefile.rule` / `NinjaFile.build` (and private helpers called only
   from them) register rules: the list (`_rules` / `_builds`) and the set of
   claimed names (`_targets` / `_build_outputs`) are written nowhere else;
 * for every target the name is claimed (added to the set) only after the
   duplicate test (`has_rule` / `has_build`, which answers from the same
   set) was false for the *same* name, under no other condition, in a loop
   over all targets, with a `raise` for the positive case; the rule is
   appended only after the claims.

All of it as effect / guard facts (sa/facts.py): the registration may live in
the method itself or in a helper it calls.
"""
import ast

from ..facts import Facts, direct, has, has_call, param_of
from ..index import AnalysisError, unparse, walk_no_nested
from .. import query as Q

RULE = 'RULE-OWNER'

SPECS = [
    # (class fq, method, list attr, set attr, test method)
    ('bfg9000.backends.make.syntax:Makefile', 'rule', '_rules', '_targets',
     'has_rule'),
    ('bfg9000.backends.ninja.syntax:NinjaFile', 'build', '_builds',
     '_build_outputs', 'has_build'),
]


def _facts(ctx):
    f = getattr(ctx, '_facts', None)
    if f is None:
        f = ctx._facts = Facts(ctx.repo)
    return f


def _path_leaves(F, e):
    """Guard leaves along the whole call path of an effect."""
    out = []
    for fn, node in e.path:
        out += F.guard_leaves(node, fn)
    return out


def _path_loop_over(F, eff, top, param):
    """Some frame on the call path of `eff` encloses its call in a `for`
    whose iterable is, followed up through the arguments of the calls on
    the path, the parameter `param` of `top` (unsliced, unfiltered)."""
    path = list(eff.path)
    for i, (fn, node) in enumerate(path):
        n = node
        loop = None
        while n is not None and n is not fn.node:
            n = getattr(n, '_parent', None)
            if isinstance(n, ast.For):
                loop = n
        if loop is None:
            continue
        e = loop.iter
        j = i
        while True:
            at = F.atoms(e, path[j][0])
            if any(isinstance(x, ast.Subscript) for x in ast.walk(e)) or \
                    has_call(at, 'if'):
                return False
            if path[j][0] is top:
                return param_of(at, param)
            if j == 0:
                return False
            # which parameter of this helper does the iterable come from?
            ps = Q.params(path[j][0].node)
            src = [p_ for p_ in ps if 'param:' + p_ in at or any(
                a.startswith('param:' + p_ + '.') for a in at)]
            if len(src) != 1:
                return False
            call = path[j - 1][1]
            if not isinstance(call, ast.Call):
                return False
            k = ps.index(src[0])
            if ps and ps[0] in ('self', 'cls') and isinstance(
                    call.func, ast.Attribute):
                k -= 1
            arg = Q.kwarg(call, src[0])
            if arg is None and 0 <= k < len(call.args):
                arg = call.args[k]
            if arg is None:
                return False
            e = arg
            j -= 1
    return False


def check(ctx):
    repo = ctx.repo
    F = _facts(ctx)
    ctx.rule(RULE, 'only Makefile.rule / NinjaFile.build (and their private '
             'helpers) register rules; a name is claimed only after the '
             'duplicate test failed for that name, unconditionally, for '
             'every target; the positive case raises')
    for cls_fq, meth, lst, st, test in SPECS:
        ci = repo.cls(cls_fq)
        f = F.fn(cls_fq + '.' + meth)
        short = ci.name + '.' + meth
        # who may write
        for attr in (lst, st):
            muts = Q.attr_mutations(repo, attr)
            Q.require(muts, 'no writer of {} found'.format(attr))
            for m, node, kind in muts:
                fn = repo.enclosing_func(node)
                owner = repo.enclosing_class(node)
                ok = owner is not None and owner.is_subclass_of(cls_fq) and \
                    fn is not None and (
                        fn.node.name == '__init__' or
                        F.only_called_from(fn, {f.fq}))
                if (attr == '_rules' and owner is not None and
                        owner.fq.endswith(':NinjaFile')):
                    # NinjaFile._rules is the (unrelated) rule-name table,
                    # covered by the ninja-rule-unique instance below
                    ok = fn is not None and (
                        fn.node.name == '__init__' or F.only_called_from(
                            fn, {owner.fq + '.rule'}))
                ctx.ob(RULE, 'writer|{}|{}'.format(
                    attr, 'in-registering-method' if ok else
                    (fn.fq if fn else m.name)), ok, node,
                    '{} is written outside {}.__init__/{}: {}'.format(
                        attr, ci.name, meth, unparse(node)[:80]))
        effs = F.effects(f, lambda e: True, depth=2)
        effs = [e for e in effs if e.fn.cls is not None and
                e.fn.cls.is_subclass_of(cls_fq)]
        adds = [e for e in effs if e.name in ('add', 'update') and
                has(e.recv(), 'self.' + st)]
        appends = [e for e in effs if e.name in ('append', 'extend',
                                                 'insert') and
                   has(e.recv(), 'self.' + lst)]
        ctx.ob(RULE, 'registers|' + short, bool(adds) and bool(appends),
               f.node, '{} does not claim the target names / append the '
               'rule'.format(short))
        if not adds or not appends:
            continue
        for a in adds:
            leaves = _path_leaves(F, a)
            reg = direct(a.arg(0))
            dup = []
            other = []
            for t, pos, fn_, b_ in leaves:
                is_test = isinstance(t, ast.Call) and Q.callee_attr(
                    t) == test or (
                        isinstance(t, ast.Compare) and isinstance(
                            t.ops[0], (ast.In, ast.NotIn)) and has(
                                F.atoms(t.comparators[0], fn_, b_),
                                'self.' + st))
                if is_test:
                    neg = pos if isinstance(t, ast.Compare) and isinstance(
                        t.ops[0], ast.NotIn) else not pos
                    arg = t.args[0] if isinstance(t, ast.Call) and t.args \
                        else (t.left if isinstance(t, ast.Compare) else None)
                    dup.append((neg, direct(F.atoms(arg, fn_, b_))
                                if arg is not None else set()))
                else:
                    other.append((t, pos))
            ok = any(neg for neg, a_ in dup)
            ctx.ob(RULE, 'guard-dominates-add|' + short, ok, a.call,
                   'the name is claimed without the duplicate test having '
                   'failed first')
            ok = any(neg and (a_ & reg) for neg, a_ in dup)
            ctx.ob(RULE, 'same-name|' + short, ok, a.call,
                   'the tested name differs from the registered name')
            # unconditional: besides the duplicate test only guards that
            # end in a raise for an empty target list are allowed
            raise_guard = set()
            for g in F.reach(f, 2):
                for n in walk_no_nested(g.node):
                    if isinstance(n, ast.If) and n.body and isinstance(
                            n.body[-1], ast.Raise):
                        raise_guard |= {id(x) for x in ast.walk(n.test)}
            cond = [t for t, pos in other if id(t) not in raise_guard]
            ctx.ob(RULE, 'registration-unconditional|' + short, not cond,
                   a.call, 'a target can pass the duplicate test without '
                   'being registered (the add is conditional): a later rule '
                   'for the same file is then accepted')
            # in a loop over all targets
            first_param = Q.params(f.node)[1]
            loops = [l for l in a.loops() if isinstance(l, ast.For)]
            ok = bool(loops)
            if ok:
                it = F.atoms(loops[-1].iter, a.fn, a.bind)
                sliced = any(isinstance(n, ast.Subscript) for n in ast.walk(
                    loops[-1].iter))
                ok = param_of(it, first_param) and not sliced and not \
                    has_call(it, 'if')
            else:
                # the loop sits in a helper between the public method and
                # the add (rule -> _claim_targets -> _claim_target)
                ok = _path_loop_over(F, a, f, first_param)
            ctx.ob(RULE, 'loop-covers-all|' + short, ok, a.call,
                   'the names are not claimed in a loop over all of `{}`'
                   .format(first_param))
            # the positive case raises
            raising = False
            for g in F.reach(f, 2):
                if g.cls is None or not g.cls.is_subclass_of(cls_fq):
                    continue
                for n in walk_no_nested(g.node):
                    if isinstance(n, ast.Raise):
                        for t, pos, fn_, b_ in F.guard_leaves(n, g):
                            if pos and isinstance(t, ast.Call) and \
                                    Q.callee_attr(t) == test:
                                raising = True
                            if isinstance(t, ast.Compare) and has(
                                    F.atoms(t.comparators[0], fn_, b_),
                                    'self.' + st) and (
                                        pos == isinstance(t.ops[0], ast.In)):
                                raising = True
            ctx.ob(RULE, 'guard-exists|' + short, raising, f.node,
                   'a second rule for the same file does not raise')
        for ap in appends:
            ok = all(F.always_before(a, ap) for a in adds)
            ctx.ob(RULE, 'guard-dominates-append|{}|{}'.format(short, lst),
                   ok, ap.call, 'the rule is appended before (or without) '
                   'the duplicate test of its targets')
        tf = F.fn(cls_fq + '.' + test)
        ok = False
        for r in Q.returns(tf.node):
            v = r.value
            if isinstance(v, ast.Compare) and isinstance(
                    v.ops[0], ast.In) and has(
                        F.atoms(v.comparators[0], tf), 'self.' + st) and \
                    param_of(F.atoms(v.left, tf), Q.params(tf.node)[1]):
                ok = True
        ctx.ob(RULE, 'test-reads-set|{}.{}'.format(ci.name, test), ok,
               tf.node, '{} does not answer `name in self.{}`'.format(
                   test, st))

    # NinjaFile.rule: rule names unique
    f = F.fn('bfg9000.backends.ninja.syntax:NinjaFile.rule')
    sts = [n for t, v, n in F.stores(f) if has(t, 'self._rules')]
    Q.require(sts, 'NinjaFile.rule: no store into _rules')
    for s in sts:
        ok = any(not pos and (isinstance(t, ast.Call) and Q.callee_attr(t)
                              == 'has_rule' or has(F.atoms(t, fn_, b_),
                                                   'self._rules'))
                 for t, pos, fn_, b_ in F.guard_leaves(s, f))
        ctx.ob(RULE, 'ninja-rule-unique', ok, s,
               'store into _rules not preceded by a failed has_rule test')
    # builtins never touch the private tables
    for attr in ('_rules', '_builds', '_targets', '_build_outputs'):
        for m in repo.modules.values():
            if not m.name.startswith('bfg9000.builtins'):
                continue
            for n in ast.walk(m.tree):
                if isinstance(n, ast.Attribute) and n.attr == attr:
                    ctx.ob(RULE, 'no-builtin-access|{}|{}'.format(
                        m.name, attr), False, n,
                        'builtin module touches {} directly'.format(attr))
    ctx.ob(RULE, 'no-builtin-access|scan', True, None,
           'scanned bfg9000.builtins.* for direct access')
