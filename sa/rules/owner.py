"""RULE-OWNER: each produced file gets exactly one producing rule.

 * only `Makefile.rule` appends to `_rules`, only `NinjaFile.build` to
   `_builds`; the sets they consult (`_targets`, `_build_outputs`) are written
   nowhere else;
 * in both, for every target, a duplicate test with a `raise` dominates the
   registration of the name and the append of the rule (CFG dominance).
"""
import ast

from ..cfg import build as build_cfg
from ..index import AnalysisError, unparse, walk_no_nested
from .. import query as Q

RULE = 'RULE-OWNER'

SPECS = [
    # (class fq, method, list attr, set attr, test method)
    ('bfg9000.backends.make.syntax:Makefile', 'rule', '_rules', '_targets',
     'has_rule'),
    ('bfg9000.backends.ninja.syntax:NinjaFile', 'build', '_builds',
     '_build_outputs', 'has_build'),
]


def _mentions(node, names):
    for n in ast.walk(node):
        if isinstance(n, ast.Attribute) and n.attr in names:
            return True
    return False


def check(ctx):
    repo = ctx.repo
    ctx.rule(RULE, 'only Makefile.rule / NinjaFile.build register rules; a '
             'duplicate-target test with raise dominates registration')
    for cls_fq, meth, lst, st, test in SPECS:
        ci = repo.cls(cls_fq)
        f = repo.method(cls_fq, meth)
        short = ci.name + '.' + meth
        # who may write
        for attr in (lst, st):
            muts = Q.attr_mutations(repo, attr)
            Q.require(muts, 'no writer of {} found'.format(attr))
            for m, node, kind in muts:
                fn = repo.enclosing_func(node)
                owner = repo.enclosing_class(node)
                ok = (owner is not None and owner.is_subclass_of(cls_fq) and
                      fn is not None and fn.node.name in ('__init__', meth))
                if (attr == '_rules' and owner is not None and
                        owner.fq.endswith(':NinjaFile')):
                    # NinjaFile._rules is the (unrelated) rule-name table,
                    # covered by the ninja-rule-unique instances below
                    ok = fn is not None and fn.node.name in ('__init__',
                                                             'rule')
                ctx.ob(RULE, 'writer|{}|{}|{}'.format(
                    attr, fn.fq if fn else m.name, kind), ok, node,
                    '{} is written outside {}.__init__/{}: {}'.format(
                        attr, ci.name, meth, unparse(node)[:80]))
        # dominance inside the registering method
        g = build_cfg(f.node)
        appends = [c for c in Q.calls(f.node, nested=False)
                   if isinstance(c.func, ast.Attribute) and
                   c.func.attr in ('append', 'extend', 'insert') and
                   isinstance(c.func.value, ast.Attribute) and
                   c.func.value.attr == lst]
        adds = [c for c in Q.calls(f.node, nested=False)
                if isinstance(c.func, ast.Attribute) and
                c.func.attr in ('add', 'update') and
                isinstance(c.func.value, ast.Attribute) and
                c.func.value.attr == st]
        Q.require(appends, '{}: no append to {}'.format(short, lst))
        Q.require(adds, '{}: no add to {}'.format(short, st))
        # guard = If whose test consults the set (directly or via has_*) and
        # whose body raises unconditionally
        guards = []
        for n in walk_no_nested(f.node):
            if isinstance(n, ast.If) and (
                    _mentions(n.test, {test, st})) and any(
                        isinstance(s, ast.Raise) for s in n.body):
                # the test must be positive (`if has_rule(x): raise`)
                neg = isinstance(n.test, ast.UnaryOp) and isinstance(
                    n.test.op, ast.Not)
                if not neg:
                    guards.append(n)
        ctx.ob(RULE, 'guard-exists|' + short, bool(guards), f.node,
               'no `if {}(...): raise` guard in {}'.format(test, short))
        if not guards:
            continue
        for a in adds:
            sa_ = g.stmt_of(a)
            ok = any(g.dominates(gd, sa_) for gd in guards)
            ctx.ob(RULE, 'guard-dominates-add|{}|{}'.format(
                short, unparse(a)), ok, a,
                'registration of the name is not dominated by the '
                'duplicate test')
            # registration is unconditional: no path from the duplicate test
            # back to the loop header (next target) or out of the loop skips
            # the add
            for gd in guards:
                lp = _enclosing_loop(gd, f.node)
                if lp is None:
                    continue
                skip = g.reaches(gd, lp, avoiding={sa_})
                ctx.ob(RULE, 'registration-unconditional|{}|{}'.format(
                    short, unparse(a)), not skip, a,
                    'a target can pass the duplicate test without being '
                    'registered (the add is conditional): a later rule for '
                    'the same file is then accepted')
            # guard and add must be in the same loop over the targets
            loop_a = _enclosing_loop(a, f.node)
            ok2 = loop_a is not None and any(
                _enclosing_loop(gd, f.node) is loop_a for gd in guards)
            ctx.ob(RULE, 'per-target-loop|{}|{}'.format(short, unparse(a)),
                   ok2, a, 'duplicate test and registration are not in the '
                   'same per-target loop')
            if loop_a is not None:
                # the loop must range over all targets/outputs: its iterable
                # is the listified first parameter
                it = unparse(loop_a.iter)
                first_param = Q.params(f.node)[1]
                vals = Q.local_assignments(f.node, it) if isinstance(
                    loop_a.iter, ast.Name) else []
                src = ' '.join(unparse(v) for v in vals if v is not None)
                ok3 = (first_param in it) or (first_param in src)
                sliced = any(isinstance(n, ast.Subscript)
                             for n in ast.walk(loop_a.iter)) or any(
                    v is not None and any(isinstance(n, ast.Subscript)
                                          for n in ast.walk(v))
                    for v in vals)
                ctx.ob(RULE, 'loop-covers-all|' + short, ok3 and not sliced,
                       loop_a, 'per-target loop does not range over all of '
                       '`{}`: iterates {}'.format(first_param, it))
        for ap in appends:
            sp = g.stmt_of(ap)
            loops = [_enclosing_loop(gd, f.node) for gd in guards]
            ok = any(l is not None and g.dominates(l, sp) for l in loops) \
                or any(g.dominates(gd, sp) for gd in guards)
            ctx.ob(RULE, 'guard-dominates-append|{}|{}'.format(
                short, lst), ok, ap,
                'append to {} is not preceded by the duplicate test'.format(
                    lst))
        # the test method answers from the same set
        tf = repo.method(cls_fq, test)
        rets = Q.returns(tf.node)
        ok = len(rets) == 1 and rets[0].value is not None and \
            isinstance(rets[0].value, ast.Compare) and \
            isinstance(rets[0].value.ops[0], ast.In) and \
            _mentions(rets[0].value, {st})
        ctx.ob(RULE, 'test-reads-set|{}.{}'.format(ci.name, test), ok,
               tf.node, '{} does not answer `name in self.{}`'.format(
                   test, st))
        # the name tested and the name registered are the same expression
        for a in adds:
            if a.args and guards:
                reg = unparse(a.args[0])
                tested = set()
                for gd in guards:
                    for c in ast.walk(gd.test):
                        if isinstance(c, ast.Call) and c.args:
                            tested.add(unparse(c.args[0]))
                        if isinstance(c, ast.Compare):
                            tested.add(unparse(c.left))
                ctx.ob(RULE, 'same-name|' + short, reg in tested, a,
                       'tested name {} differs from registered name {}'
                       .format(sorted(tested), reg))

    # NinjaFile.rule: rule names unique
    f = repo.method('bfg9000.backends.ninja.syntax:NinjaFile', 'rule')
    g = build_cfg(f.node)
    stores = [n for n in walk_no_nested(f.node)
              if isinstance(n, ast.Assign) and any(
                  isinstance(t, ast.Subscript) and isinstance(
                      t.value, ast.Attribute) and t.value.attr == '_rules'
                  for t in n.targets)]
    Q.require(stores, 'NinjaFile.rule: no store into _rules')
    guards = [n for n in walk_no_nested(f.node)
              if isinstance(n, ast.If) and _mentions(
                  n.test, {'has_rule', '_rules'}) and any(
                      isinstance(s, ast.Raise) for s in n.body)]
    for s in stores:
        ctx.ob(RULE, 'ninja-rule-unique', any(
            g.dominates(gd, s) for gd in guards), s,
            'store into _rules not dominated by has_rule guard')
    # builtins never touch the private tables
    for attr in ('_rules', '_builds', '_targets', '_build_outputs'):
        for m in repo.modules.values():
            if not m.name.startswith('bfg9000.builtins'):
                continue
            for n in ast.walk(m.tree):
                if isinstance(n, ast.Attribute) and n.attr == attr:
                    ctx.ob(RULE, 'no-builtin-access|{}|{}'.format(
                        m.name, attr), False, n,
                        'builtin module touches {} directly'.format(attr))
    ctx.ob(RULE, 'no-builtin-access|scan', True, None,
           'scanned bfg9000.builtins.* for direct access')


def _enclosing_loop(node, stop):
    n = getattr(node, '_parent', None)
    while n is not None and n is not stop:
        if isinstance(n, (ast.For, ast.While)):
            return n
        n = getattr(n, '_parent', None)
    return None
