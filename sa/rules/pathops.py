"""PATH-COMPONENTWISE: path suffixes are compared component-wise, never as
character strings.

`BasePath.suffix` is a '/'-joined component string. A string-prefix test
(`a.suffix.startswith(b.suffix)`), a slice by the length of another suffix, or
an ordering by the raw suffix string (`sorted(paths, key=lambda p: p.suffix)`,
`min/max(..., key=...suffix)`) treats `lib` as an ancestor of `lib64` and sorts
`lib-extra` between `lib` and `lib/sub` -- wrong for sibling names that share
a prefix. The tree has no such construct today (expected count 0; a positive
example is kept in the self-test); a prefix test against a separator-
terminated string (`x.startswith(p + sep)`) is accepted.
"""
import ast

from ..index import unparse, walk_no_nested
from .. import query as Q

RULE = 'PATH-COMPONENTWISE'
STR_PREFIX_METHODS = {'startswith', 'endswith', 'find', 'index', 'partition',
                      'rpartition', 'removeprefix', 'removesuffix'}
ORDER_FUNCS = {'sorted', 'min', 'max'}


def _mentions_suffix(node, suffix_locals=()):
    for n in ast.walk(node):
        if isinstance(n, ast.Attribute) and n.attr == 'suffix':
            return True
        if isinstance(n, ast.Name) and n.id in suffix_locals:
            return True
    return False


def _sep_terminated(e):
    t = unparse(e)
    return t.endswith('.sep') or t.endswith("+ '/'") or t.endswith(
        'posixpath.sep') or t.endswith("'/'") or t.endswith('os.sep')


def check(ctx, rule_id=RULE):
    repo = ctx.repo
    ctx.rule(rule_id, 'no string-prefix test, length-slice or raw string '
             'ordering or substring test is applied to path suffix strings '
             '(component-wise comparison only)')
    n_funcs = 0
    # parameters that receive a raw suffix string at some call site
    # (`self.__relsuffix(self.suffix, start.suffix)`)
    from ..facts import Facts
    F = getattr(ctx, '_facts', None)
    if F is None:
        F = ctx._facts = Facts(repo)
    suffix_params = {}
    for fi in repo.functions.values():
        for c in walk_no_nested(fi.node):
            if not isinstance(c, ast.Call) or not any(
                    isinstance(a, ast.Attribute) and a.attr == 'suffix'
                    for a in c.args):
                continue
            try:
                callee = F.flow.resolve_call(c, fi)
            except Exception:
                callee = None
            if callee is None:
                continue
            ps = Q.params(callee.node)
            off = 1 if ps and ps[0] in ('self', 'cls') and isinstance(
                c.func, ast.Attribute) else 0
            for i, a in enumerate(c.args):
                if isinstance(a, ast.Attribute) and a.attr == 'suffix' and \
                        i + off < len(ps):
                    suffix_params.setdefault(callee.fq, set()).add(
                        ps[i + off])
    for fi in sorted(repo.functions.values(), key=lambda f: f.fq):
        if fi.module.name.startswith(('bfg9000.e1m1',)):
            continue
        n_funcs += 1
        # locals that hold a suffix string
        sl = set(suffix_params.get(fi.fq, ()))
        for n in walk_no_nested(fi.node):
            if isinstance(n, ast.Assign) and len(n.targets) == 1 and \
                    isinstance(n.targets[0], ast.Name):
                v = n.value
                if isinstance(v, ast.BoolOp):
                    v = v.values[0]
                if isinstance(v, ast.Attribute) and v.attr == 'suffix':
                    sl.add(n.targets[0].id)
        for n in walk_no_nested(fi.node):
            if isinstance(n, ast.Call) and isinstance(n.func, ast.Attribute):
                if n.func.attr in STR_PREFIX_METHODS and n.args:
                    recv_s = _mentions_suffix(n.func.value, sl)
                    arg_s = _mentions_suffix(n.args[0], sl)
                    if recv_s and arg_s and not _sep_terminated(n.args[0]):
                        ctx.ob(rule_id, '{}|{}'.format(fi.fq, unparse(n)),
                               False, n,
                               'string-prefix operation between two path '
                               'suffixes: `lib` is a string prefix of '
                               '`lib64` without being its ancestor')
                if n.func.attr == 'sort':
                    k = Q.kwarg(n, 'key')
                    if k is not None and _orders_by_suffix(k):
                        ctx.ob(rule_id, '{}|{}'.format(fi.fq, unparse(n)),
                               False, n, 'paths are ordered by the raw '
                               'suffix string')
            if isinstance(n, ast.Call) and isinstance(n.func, ast.Name) and \
                    n.func.id in ORDER_FUNCS:
                k = Q.kwarg(n, 'key')
                if k is not None and _orders_by_suffix(k):
                    ctx.ob(rule_id, '{}|{}'.format(fi.fq, unparse(n)[:90]),
                           False, n,
                           'paths are ordered by the raw suffix string: '
                           '`lib-extra` sorts between `lib` and `lib/sub`, '
                           'so ancestors and descendants are no longer '
                           'adjacent')
            if isinstance(n, ast.Subscript) and isinstance(
                    n.slice, ast.Slice):
                lo = n.slice.lower
                if lo is not None and isinstance(lo, ast.Call) and unparse(
                        lo.func) == 'len' and lo.args and _mentions_suffix(
                            lo.args[0], sl) and _mentions_suffix(
                                n.value, sl):
                    ctx.ob(rule_id, '{}|{}'.format(fi.fq, unparse(n)), False,
                           n, 'a suffix is cut by the length of another '
                           'suffix (string prefix, not component prefix)')
            if isinstance(n, ast.Compare) and len(n.ops) == 1 and isinstance(
                    n.ops[0], (ast.In, ast.NotIn)) and isinstance(
                        n.left, ast.Constant) and isinstance(
                            n.left.value, str) and n.left.value:
                c = n.comparators[0]
                raw = (isinstance(c, ast.Attribute) and c.attr == 'suffix') \
                    or (isinstance(c, ast.Name) and c.id in sl)
                if raw:
                    ctx.ob(rule_id, '{}|{}'.format(fi.fq, unparse(n)), False,
                           n, 'substring test on a path suffix: {!r} is a '
                           'substring of names that merely contain it (a '
                           'file `range_0..9.cpp` is not a parent '
                           'reference)'.format(n.left.value))
            if isinstance(n, ast.Compare) and any(isinstance(
                    o, (ast.Lt, ast.Gt, ast.LtE, ast.GtE)) for o in n.ops):
                if isinstance(n.left, ast.Attribute) and \
                        n.left.attr == 'suffix' and any(
                            isinstance(c, ast.Attribute) and
                            c.attr == 'suffix' for c in n.comparators):
                    ctx.ob(rule_id, '{}|{}'.format(fi.fq, unparse(n)), False,
                           n, 'suffix strings compared with < / >')
    ctx.ob(rule_id, 'scan|functions', True, None,
           'scanned: {} functions, no string-wise suffix operation '
           'allowed'.format(n_funcs))


def _orders_by_suffix(key):
    if isinstance(key, ast.Lambda):
        body = key.body
        arg = key.args.args[0].arg if key.args.args else None
        for n in ast.walk(body):
            if isinstance(n, ast.Attribute) and n.attr == 'suffix':
                # i.suffix used raw (not .split())
                p = getattr(n, '_parent', None)
                if isinstance(p, ast.Attribute) and p.attr == 'split':
                    continue
                return True
    return False
