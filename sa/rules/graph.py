"""Registry model and dependency-cover analysis for the rule handlers.

  registry(repo)     backend -> {edge class fq -> handler FuncInfo} from the
                     decorators @make.rule_handler(A, B), @ninja.rule_handler,
                     @compdb.rule_handler, @msbuild.rule_handler; plus
                     hooks: backend -> {'pre': [...], 'post': [...]}
  edge_classes(repo) every class inheriting from build_inputs.Edge, with the
                     subset that is instantiated somewhere (concrete)
  roots(...)         def-use: which `rule.<attr>` roots reach an expression
"""
import ast

from ..index import AnalysisError, unparse, walk_no_nested
from .. import query as Q

EDGE = 'bfg9000.build_inputs:Edge'
BACKEND_WRITERS = {
    'make': 'bfg9000.backends.make.writer',
    'ninja': 'bfg9000.backends.ninja.writer',
    'compdb': 'bfg9000.backends.compdb.writer',
    'msbuild': 'bfg9000.backends.msbuild.writer',
}


class Registry:
    def __init__(self, repo):
        self.repo = repo
        self.handlers = {b: {} for b in BACKEND_WRITERS}
        self.hooks = {b: {'pre': [], 'post': []} for b in BACKEND_WRITERS}
        self._scan()

    def _backend_of(self, module, expr):
        """`make.rule_handler` -> ('make', 'rule_handler')"""
        if not isinstance(expr, ast.Attribute):
            return None
        r = self.repo.resolve_expr(module, expr.value)
        if r and r[0] == 'module':
            for b, mn in BACKEND_WRITERS.items():
                if r[1].name == mn:
                    return b, expr.attr
        return None

    def _scan(self):
        repo = self.repo
        for fi in repo.functions.values():
            for d in fi.node.decorator_list:
                if isinstance(d, ast.Call):
                    bk = self._backend_of(fi.module, d.func)
                    if bk and bk[1] == 'rule_handler':
                        for a in d.args:
                            r = repo.resolve_expr(fi.module, a)
                            if not r or r[0] != 'class':
                                raise AnalysisError(
                                    'cannot resolve edge class {} in '
                                    'decorator of {}'.format(unparse(a),
                                                             fi.fq))
                            self.handlers[bk[0]][r[1].fq] = fi
                else:
                    bk = self._backend_of(fi.module, d)
                    if bk and bk[1] in ('pre_rules_hook', 'post_rules_hook'):
                        self.hooks[bk[0]][bk[1].split('_')[0]].append(fi)
        # hooks run in registration order = module import order, which the
        # checker does not model; rules must not rely on hook order.


def edge_classes(repo):
    base = repo.cls(EDGE)
    subs = base.subclasses()
    inst = set()
    for m, c in Q.all_calls(repo):
        if isinstance(c.func, (ast.Name, ast.Attribute)):
            r = repo.resolve_expr(m, c.func)
            if r and r[0] == 'class' and r[1].is_subclass_of(EDGE):
                inst.add(r[1].fq)
    concrete = [c for c in subs if c.fq in inst]
    abstract = [c for c in subs if c.fq not in inst]
    return concrete, abstract


class Roots:
    """Which `rule.<attr>` roots can an expression in a handler derive from?
    Over-approximating def-use: any mention of a root or of a local whose
    definitions mention it counts."""

    def __init__(self, fn_node, param='rule'):
        self.fn = fn_node
        self.param = param
        self.defs = {}
        self.guards = {}
        self._collect()
        self._memo = {}

    def _add(self, name, expr):
        self.defs.setdefault(name, []).append(expr)
        self.guards[id(expr)] = self._guards_of(expr)

    def _guards_of(self, node):
        """Tests of the `if` statements that enclose the statement holding
        `node` (up to the function)."""
        out = []
        child = node
        n = getattr(node, '_parent', None)
        while n is not None and n is not self.fn:
            if isinstance(n, ast.If) and child is not n.test:
                out.append(n.test)
            child = n
            n = getattr(n, '_parent', None)
        return out

    def _mentions_root(self, test, r):
        for n in ast.walk(test):
            if isinstance(n, ast.Attribute) and isinstance(
                    n.value, ast.Name) and n.value.id == self.param and \
                    n.attr == r:
                return True
            if isinstance(n, ast.Call) and unparse(n.func) in (
                    'getattr', 'hasattr') and len(n.args) >= 2 and \
                    isinstance(n.args[0], ast.Name) and \
                    n.args[0].id == self.param and isinstance(
                        n.args[1], ast.Constant) and n.args[1].value == r:
                return True
        return False

    def clean(self, e, _stack=None):
        """Roots that reach `e` along definitions that are unconditional
        or guarded only by presence tests on that same root (e.g.
        `if getattr(rule, 'pch', None): deps.append(rule.pch)`)."""
        _stack = _stack or set()
        out = set()
        if e is None:
            return out
        if isinstance(e, ast.IfExp):
            for part in (e.body, e.orelse):
                out |= {r for r in self.clean(part, _stack)
                        if self._mentions_root(e.test, r)}
            return out
        for n in ast.iter_child_nodes(e) if not isinstance(
                e, (ast.Name, ast.Attribute, ast.Call)) else [None]:
            if n is None:
                break
            out |= self.clean(n, _stack)
        if isinstance(e, ast.Attribute):
            if isinstance(e.value, ast.Name) and e.value.id == self.param:
                out.add(e.attr)
            else:
                out |= self.clean(e.value, _stack)
        elif isinstance(e, ast.Call):
            if unparse(e.func) == 'getattr' and len(e.args) >= 2 and \
                    isinstance(e.args[0], ast.Name) and \
                    e.args[0].id == self.param and isinstance(
                        e.args[1], ast.Constant):
                out.add(e.args[1].value)
                for a in e.args[2:]:
                    out |= self.clean(a, _stack)
            else:
                for a in list(e.args) + [k.value for k in e.keywords]:
                    out |= self.clean(a, _stack)
                if isinstance(e.func, ast.Attribute):
                    out |= self.clean(e.func.value, _stack)
        elif isinstance(e, ast.Name):
            if e.id in self.defs and e.id not in _stack and \
                    e.id != self.param:
                for d in self.defs[e.id]:
                    sub = self.clean(d, _stack | {e.id})
                    gs = self.guards.get(id(d), [])
                    out |= {r for r in sub
                            if all(self._mentions_root(g, r) for g in gs)}
        return out

    def _collect(self):
        for n in ast.walk(self.fn):
            if isinstance(n, ast.Assign):
                for t in n.targets:
                    for nm in ast.walk(t):
                        if isinstance(nm, ast.Name):
                            self._add(nm.id, n.value)
                        elif isinstance(nm, ast.Subscript) and isinstance(
                                nm.value, ast.Name):
                            self._add(nm.value.id, n.value)
            elif isinstance(n, ast.AugAssign) and isinstance(
                    n.target, ast.Name):
                self._add(n.target.id, n.value)
            elif isinstance(n, ast.Call) and isinstance(
                    n.func, ast.Attribute) and n.func.attr in (
                        'append', 'extend', 'insert', 'update', 'add') and \
                    isinstance(n.func.value, ast.Name):
                for a in n.args:
                    self._add(n.func.value.id, a)
            elif isinstance(n, (ast.For, ast.comprehension)):
                for nm in ast.walk(n.target):
                    if isinstance(nm, ast.Name):
                        self._add(nm.id, n.iter)

    def of(self, e, _stack=None):
        _stack = _stack or set()
        out = set()
        if e is None:
            return out
        for n in ast.walk(e):
            if isinstance(n, ast.Attribute) and isinstance(
                    n.value, ast.Name) and n.value.id == self.param:
                out.add(n.attr)
            elif isinstance(n, ast.Call) and unparse(n.func) == 'getattr' \
                    and len(n.args) >= 2 and isinstance(
                        n.args[0], ast.Name) and n.args[0].id == self.param \
                    and isinstance(n.args[1], ast.Constant):
                out.add(n.args[1].value)
            elif isinstance(n, ast.Name) and n.id in self.defs and \
                    n.id not in _stack and n.id != self.param:
                if n.id in self._memo:
                    out |= self._memo[n.id]
                    continue
                sub = set()
                for d in self.defs[n.id]:
                    sub |= self.of(d, _stack | {n.id})
                if not _stack:
                    self._memo[n.id] = sub
                out |= sub
        return out


def emission_calls(fn_node):
    """Calls that register a rule/build statement in a handler: returns
    list of (call, kind) with kind in make-rule / make-multi / ninja-build /
    ninja-command / compdb-append."""
    out = []
    for c in Q.calls(fn_node):
        t = unparse(c.func)
        if t == 'buildfile.rule' and (Q.kwarg(c, 'target') is not None or
                                      c.args):
            if Q.kwarg(c, 'name') is not None:
                continue        # ninja rule definition, not a build edge
            out.append((c, 'make-rule'))
        elif t == 'make.multitarget_rule':
            out.append((c, 'make-multi'))
        elif t == 'buildfile.build':
            out.append((c, 'ninja-build'))
        elif t == 'ninja.command_build':
            out.append((c, 'ninja-command'))
        elif t == 'buildfile.append':
            out.append((c, 'compdb-append'))
    return out


DEP_ARGS = {
    'make-rule': (('target', 0), [('deps', 1)], [('order_only', 2)]),
    'make-multi': (('targets', 2), [('deps', 3)], [('order_only', 4)]),
    'ninja-build': (('output', 0), [('inputs', 2), ('implicit', 3)],
                    [('order_only', 4)]),
    'ninja-command': (('output', 2), [('inputs', 3), ('implicit', 4)],
                      [('order_only', 5)]),
}


def call_arg(call, name, pos):
    v = Q.kwarg(call, name)
    if v is not None:
        return v
    if pos is not None and pos < len(call.args):
        return call.args[pos]
    return None


def env_export(ctx, rule_id, backends=('make', 'ninja', 'compdb')):
    """ENV-EXPORT: every emitter of command/build_step edges hands
    `global_env(rule.env, rule.cmds)` -- environment exported for *all*
    commands of the step -- to the recipe/command, after inlining locals."""
    repo = ctx.repo
    K = 'bfg9000.builtins.command:'
    table = {'make': (K + 'make_command', 'make.multitarget_rule', 'recipe'),
             'ninja': (K + 'ninja_command', 'ninja.command_build',
                       'command'),
             'compdb': (K + 'compdb_copy_file', 'buildfile.append',
                        'arguments')}
    for b in backends:
        fq, callee, kw = table[b]
        f = repo.func(fq)
        hit = [c for c in Q.calls(f.node) if unparse(c.func) == callee]
        ok = False
        got = None
        if len(hit) == 1:
            a = Q.kwarg(hit[0], kw)
            got = Q.inline(f.node, a) if a is not None else None
            ok = got in ('shell.global_env(rule.env, rule.cmds)',
                         'pshell.global_env(rule.env, rule.cmds)',
                         '[pshell.global_env(rule.env, rule.cmds)]',
                         '[shell.global_env(rule.env, rule.cmds)]')
        ctx.ob(rule_id, 'env-export|' + fq, ok, f.node,
               '{} passes {} as the command: the step environment is not '
               'exported for every command of the step'.format(
                   fq.split(':')[1], got))
