"""Escaping rules shared by C01, C02, C04, C17:

  ESC-<backend>     writer's escape table (extracted from Writer.escape_str per
                    Syntax member) covers the reader's metacharacters at every
                    emission site and context
  SYNTAX-POSITION   left of a colon -> Syntax.target/output, right -> dependency
  WRITE-FLOW        shape of Writer.write: quote before escape, literals only
                    from guarded branches, paths quoted as one unit
  LIT-SITES         write_literal outside Writer.write passes only constants
                    and sanitised identifiers
  LITERAL-ORIGIN    literal()/shell_literal() constructed only from constants,
                    sanitised identifiers or writer output
  SH-SAFE           characters left unquoted by the sh quoter are not special
"""
import ast

from ..consteval import (EnumMember, RegexConst, UNKNOWN, const_eval,
                         enum_members, fold_test)
from ..index import AnalysisError, unparse, walk_no_nested
from .. import query as Q
from .. import rx
from .. import substchain
from .. import tables as T

MAKE_SYN = 'bfg9000.backends.make.syntax'
NINJA_SYN = 'bfg9000.backends.ninja.syntax'
PC_SYN = 'bfg9000.shell.syntax'
POSIX = 'bfg9000.shell.posix'


# ---------------------------------------------------------------------------
# escape tables
# ---------------------------------------------------------------------------
def escape_table(repo, syn_mod):
    """member name -> list of Subst (or None when escape_str rejects it).
    For the pc writer (no escape_str) every member maps to []."""
    members = enum_members(repo, syn_mod, 'Syntax')
    fq = syn_mod + ':Writer.escape_str'
    out = {}
    if not repo.has_func(fq):
        return {m: [] for m in members}, members
    f = repo.func(fq)
    for m in members:
        ops, s = substchain.summarise(
            repo, f, EnumMember(syn_mod + ':Syntax', m))
        out[m] = ops
    return out, members


# ---------------------------------------------------------------------------
# emission sites
# ---------------------------------------------------------------------------
class Token:
    def __init__(self, kind, node, text=None, syntaxes=None, callee=None):
        self.kind = kind          # 'lit' | 'write'
        self.node = node
        self.text = text          # for lit: (prefix_const, suffix_const)
        self.syntaxes = syntaxes  # for write: set of member names
        self.callee = callee
        self.prefix_kw = None


def _const_edges(repo, mod, cls, e):
    """(leading constant text, trailing constant text) of a string
    expression; '' where the edge is not constant."""
    v = const_eval(repo, mod, e, cls)
    if isinstance(v, str):
        return v, v
    if isinstance(e, ast.BinOp) and isinstance(e.op, ast.Add):
        l = _const_edges(repo, mod, cls, e.left)
        r = _const_edges(repo, mod, cls, e.right)
        return l[0], r[1]
    if isinstance(e, ast.IfExp):
        a = _const_edges(repo, mod, cls, e.body)
        b = _const_edges(repo, mod, cls, e.orelse)
        return (a[0] if a[0] == b[0] else ''), (a[1] if a[1] == b[1] else '')
    if isinstance(e, ast.Call) and Q.callee_attr(e) == 'format' and \
            isinstance(e.func, ast.Attribute):
        v = const_eval(repo, mod, e.func.value, cls)
        if isinstance(v, str):
            lead = v.split('{')[0]
            trail = v.rsplit('}', 1)[-1] if '}' in v else v
            return lead, trail
    return '', ''


class SiteExtractor:
    """Linearise the writer calls of one function (source order)."""

    def __init__(self, repo, finfo, syn_mod, members, out_names=('out',)):
        self.repo = repo
        self.f = finfo
        self.mod = finfo.module
        self.cls = finfo.cls
        self.syn_mod = syn_mod
        self.members = members
        self.out_names = out_names
        self.local_alias = {}
        for n in walk_no_nested(finfo.node):
            if isinstance(n, ast.Assign) and len(n.targets) == 1 and \
                    isinstance(n.targets[0], ast.Name) and isinstance(
                        n.value, (ast.Name, ast.Attribute)):
                self.local_alias[n.targets[0].id] = n.value

    def syntax_set(self, e, default=None):
        """Members a syntax expression can evaluate to."""
        if e is None:
            return set(default) if default else None
        v = const_eval(self.repo, self.mod, e, self.cls)
        if isinstance(v, EnumMember):
            return {v.name}
        if isinstance(e, ast.IfExp):
            a = self.syntax_set(e.body)
            b = self.syntax_set(e.orelse)
            if a is not None and b is not None:
                return a | b
        if isinstance(e, ast.Name):
            vals = Q.local_assignments(self.f.node, e.id)
            if vals:
                out = set()
                for x in vals:
                    s = self.syntax_set(x) if x is not None else None
                    if s is None:
                        return None
                    out |= s
                return out
            if e.id in Q.params(self.f.node):
                return self.param_syntaxes(self.f, e.id)
        return None

    def param_syntaxes(self, finfo, pname):
        """Default of a syntax parameter plus every value passed by callers
        within the package."""
        out = set()
        d = Q.param_default(finfo.node, pname)
        if d is not None:
            v = const_eval(self.repo, finfo.module, d, finfo.cls)
            if isinstance(v, EnumMember):
                out.add(v.name)
        plist = Q.params(finfo.node)
        idx = plist.index(pname) - (1 if plist and plist[0] in (
            'self', 'cls') else 0)
        for m, c, exact in Q.find_callers(self.repo, finfo):
            a = Q.arg(c, idx, pname)
            if a is None:
                continue
            caller = self.repo.enclosing_func(c)
            if caller is None:
                continue
            sub = SiteExtractor(self.repo, caller, self.syn_mod,
                                self.members)
            s = sub.syntax_set(a)
            if s is None:
                if exact:
                    raise AnalysisError(
                        'cannot evaluate syntax argument {} at {}'.format(
                            unparse(a), self.repo.site(c)))
                continue
            out |= s
        return out

    def tokens(self):
        toks = []
        self._walk(self.f.node.body, toks)
        return toks

    def _walk(self, body, toks):
        for st in body:
            if isinstance(st, (ast.FunctionDef, ast.ClassDef)):
                continue
            if isinstance(st, ast.Expr) and isinstance(st.value, ast.Call):
                self._call(st.value, toks)
            elif isinstance(st, ast.Assign) and isinstance(
                    st.value, ast.Call):
                self._call(st.value, toks)
            elif isinstance(st, ast.AugAssign) and isinstance(
                    st.value, ast.Call):
                self._call(st.value, toks)
            for fld in ('body', 'orelse', 'finalbody'):
                sub = getattr(st, fld, None)
                if sub and isinstance(sub, list) and not isinstance(
                        st, (ast.FunctionDef, ast.ClassDef)):
                    self._walk(sub, toks)
            if isinstance(st, ast.Try):
                for h in st.handlers:
                    self._walk(h.body, toks)

    def _call(self, c, toks):
        if not isinstance(c.func, ast.Attribute):
            return
        recv = c.func.value
        nm = c.func.attr
        on_out = isinstance(recv, ast.Name) and recv.id in self.out_names
        on_self = isinstance(recv, ast.Name) and recv.id == 'self'
        if on_out and nm == 'write_literal' and c.args:
            toks.append(Token('lit', c, _const_edges(
                self.repo, self.mod, self.cls, c.args[0])))
        elif on_out and nm == 'write' and c.args:
            s = self.syntax_set(Q.arg(c, 1, 'syntax'))
            toks.append(Token('write', c, syntaxes=s, callee='write'))
        elif on_out and nm == 'write_each' and c.args:
            s = self.syntax_set(Q.arg(c, 1, 'syntax'))
            t = Token('write', c, syntaxes=s, callee='write_each')
            p = Q.kwarg(c, 'prefix')
            if p is not None:
                t.prefix_kw = self._lit_text(p)
            toks.append(t)
        elif on_out and nm == 'write_shell' and c.args:
            a = Q.arg(c, 1, 'syntax')
            if a is None:
                # default of Writer.write_shell
                w = self.repo.method(self.syn_mod + ':Writer', 'write_shell')
                d = Q.param_default(w.node, 'syntax')
                v = const_eval(self.repo, w.module, d, w.cls)
                s = {v.name} if isinstance(v, EnumMember) else None
            else:
                s = self.syntax_set(a)
            toks.append(Token('write', c, syntaxes=s, callee='write_shell'))
        elif on_self and nm in ('_write_variable', '_write_define',
                                '_write_rule', '_write_build'):
            toks.append(Token('lit', c, ('', '\n')))

    def _lit_text(self, e):
        """Text of lit('..') / safe_str.literal('..') argument."""
        if isinstance(e, ast.Call) and e.args:
            v = const_eval(self.repo, self.mod, e.args[0], self.cls)
            if isinstance(v, str):
                return v
        return None


def classify_make(func_name, tok, prev, nxt):
    if func_name.endswith('_write_define'):
        return ['MK_DEFINE']
    p = tok.prefix_kw if tok.prefix_kw is not None else prev
    if p is None:
        p = ''
    if p.endswith(' := '):
        return ['MK_VARVALUE']
    if p.endswith('\n\t'):
        return ['MK_RECIPE', 'MK_RECIPE_FIRST']
    if p.endswith(' ; '):
        return ['MK_RECIPE', 'MK_RECIPE_FIRST']
    if p.endswith('.PHONY: ') or p in (':', ' ', ' | ') or p.endswith(': '):
        return ['MK_PREREQ']
    if p.endswith('include '):
        return ['MK_TARGET']
    if nxt is not None and nxt.startswith(':'):
        return ['MK_TARGET']
    return None


def classify_ninja(func_name, tok, prev, nxt):
    p = tok.prefix_kw if tok.prefix_kw is not None else prev
    if p is None:
        p = ''
    if p.endswith(' = '):
        return ['NJ_VARVALUE']
    if p.endswith('build ') or p.endswith('default ') or p in (
            ' ', ' | ', ' || '):
        return ['NJ_PATH']
    return None


def classify_pc(func_name, tok, prev, nxt):
    p = prev or ''
    if p.endswith('=') or p.endswith(': '):
        return ['PC_VALUE']
    if nxt is not None and (nxt.startswith('=') or nxt.startswith(':')):
        return ['PC_NAME']
    return None


CONTEXT_TABLE = {
    'MK_VARVALUE': (T.MK_VARVALUE, {}),
    'MK_RECIPE': (T.MK_RECIPE, {}),
    'MK_RECIPE_FIRST': ({}, {}),     # handled by SH-SAFE (position rule)
    'MK_DEFINE': (T.MK_DEFINE, {}),
    'MK_TARGET': (T.MK_TARGET, T.MK_TARGET_START),
    'MK_PREREQ': (T.MK_PREREQ, T.MK_PREREQ_START),
    'MK_FUNCARG': (T.MK_FUNCARG, {}),
    'NJ_PATH': (T.NJ_PATH, {}),
    'NJ_VARVALUE': (T.NJ_VARVALUE, {}),
    'PC_VALUE': (T.PC_VALUE, {}),
    'PC_NAME': ({}, {}),
}

# which syntax members are legitimate per context (SYNTAX-POSITION)
POSITION_SYNTAX = {
    'MK_TARGET': {'target'},
    'MK_PREREQ': {'dependency'},
    'MK_VARVALUE': {'shell', 'clean'},
    'MK_RECIPE': {'shell'},
    'MK_DEFINE': {'shell'},
    'NJ_PATH': {'output', 'input'},
    'NJ_VARVALUE': {'shell', 'clean'},
}


def emission_sites(ctx, funcs, syn_mod, members, classify, out_names=('out',)):
    """Yield (finfo, token, contexts) for every writer call of the listed
    functions."""
    repo = ctx.repo
    res = []
    for fq in funcs:
        f = repo.func(fq)
        ex = SiteExtractor(repo, f, syn_mod, members, out_names)
        toks = ex.tokens()
        for i, t in enumerate(toks):
            if t.kind != 'write':
                continue
            prev = None
            for j in range(i - 1, -1, -1):
                if toks[j].kind == 'lit':
                    prev = toks[j].text[1]
                    break
                if toks[j].kind == 'write':
                    # adjacent writes without a literal between them:
                    # keep looking; the delimiter is the enclosing literal
                    continue
            nxt = None
            for j in range(i + 1, len(toks)):
                if toks[j].kind == 'lit':
                    nxt = toks[j].text[0]
                    break
                if toks[j].kind == 'write':
                    break
            cs = classify(f.qualname, t, prev, nxt)
            if cs is None:
                raise AnalysisError(
                    'cannot classify the lexical context of {} at {} '
                    '(previous literal {!r}, next {!r})'.format(
                        unparse(t.node), repo.site(t.node), prev, nxt))
            if t.syntaxes is None:
                raise AnalysisError(
                    'cannot evaluate the Syntax argument of {} at {}'.format(
                        unparse(t.node), repo.site(t.node)))
            res.append((f, t, cs))
    return res


def esc_rule(ctx, rule_id, sites, table, only_contexts=None,
             skip_contexts=(), only_members=None):
    """Obligation per (site, syntax member, metachar): the member's escape
    chain alters the metachar."""
    n = 0
    for f, t, cs in sites:
        for cname in cs:
            if only_contexts is not None and cname not in only_contexts:
                continue
            if cname in skip_contexts:
                continue
            anywhere, start = CONTEXT_TABLE[cname]
            for m in sorted(t.syntaxes):
                if only_members is not None and m not in only_members:
                    continue
                ops = table.get(m)
                if ops is None:
                    ctx.ob(rule_id, '{}|{}|{}|rejected'.format(
                        f.fq, cname, m), False, t.node,
                        'Syntax.{} is rejected by escape_str but used at '
                        'this site'.format(m))
                    continue
                for ch, why in sorted(anywhere.items()):
                    n += 1
                    ctx.ob(rule_id, '{}|{}|Syntax.{}|{!r}'.format(
                        f.fq, cname, m, ch),
                        substchain.altered(ops, ch, at_start=True), t.node,
                        '{!r} ({}) is written unescaped in context {} by '
                        '{}'.format(ch, why, cname, unparse(t.node)[:70]))
                for ch, why in sorted(start.items()):
                    n += 1
                    ctx.ob(rule_id, '{}|{}|Syntax.{}|^{!r}'.format(
                        f.fq, cname, m, ch),
                        substchain.altered(ops, ch, at_start=True), t.node,
                        'leading {!r} ({}) is written unescaped in context '
                        '{}'.format(ch, why, cname))
    return n


def position_rule(ctx, rule_id, sites):
    for f, t, cs in sites:
        for cname in cs:
            want = POSITION_SYNTAX.get(cname)
            if want is None:
                continue
            ok = t.syntaxes <= want
            ctx.ob(rule_id, '{}|{}|{}'.format(
                f.fq, cname, unparse(t.node.args[0]) if t.node.args else '?'),
                ok, t.node,
                'context {} is written with Syntax.{} (expected one of {})'
                .format(cname, '/'.join(sorted(t.syntaxes)), sorted(want)))


# ---------------------------------------------------------------------------
# WRITE-FLOW
# ---------------------------------------------------------------------------
def _isinstance_branches(fn):
    """Top-level if/elif chain of isinstance(thing, T) tests in a function:
    list of (type text, body)."""
    out = []
    for st in fn.body:
        if isinstance(st, ast.If):
            cur = st
            while True:
                t = cur.test
                if isinstance(t, ast.Call) and unparse(t.func) == \
                        'isinstance' and len(t.args) == 2:
                    out.append((unparse(t.args[1]), cur.body, cur))
                if len(cur.orelse) == 1 and isinstance(cur.orelse[0],
                                                       ast.If):
                    cur = cur.orelse[0]
                else:
                    if cur.orelse:
                        out.append(('<else>', cur.orelse, cur))
                    break
            if out:
                return out
    return out


def write_flow(ctx, syn_mod, shelly_members, has_escape=True,
               rule_id='WRITE-FLOW'):
    """Structural obligations on Writer.write of one backend."""
    repo = ctx.repo
    R = rule_id
    ctx.rule(R, 'in Writer.write: only guarded literal text, escape_str '
             'results or nested-writer output reach the stream; shell quoting '
             'is applied before build-file escaping; paths are quoted as one '
             'unit; the set of "shelly" syntaxes is exactly the shell '
             'contexts')
    W = repo.method(syn_mod + ':Writer', 'write')
    fn = W.node
    short = syn_mod.split('.')[-2] + '.Writer.write' if syn_mod != PC_SYN \
        else 'pc.Writer.write'
    mod = W.module
    cls = W.cls
    members = enum_members(repo, syn_mod, 'Syntax')

    # (0) stream.write only from write_literal
    wl = repo.method(syn_mod + ':Writer', 'write_literal')
    for n in ast.walk(cls.node):
        if isinstance(n, ast.Call) and isinstance(n.func, ast.Attribute) and \
                n.func.attr == 'write' and isinstance(
                    n.func.value, ast.Attribute) and \
                n.func.value.attr == 'stream' and isinstance(
                    n.func.value.value, ast.Name) and \
                n.func.value.value.id == 'self':
            owner = repo.enclosing_func(n)
            ctx.ob(R, short + '|stream.write-owner|' + owner.qualname,
                   owner.node is wl.node, n,
                   'self.stream.write called outside write_literal')

    # (0b) Writer.quote is the plain sh quoter: its caller
    # (tests._build_commands) hands it text the writer has *already*
    # escaped for the build file, so it must not escape again
    if 'quote' in cls.methods:
        qm = cls.methods['quote']
        calls_ = [n for n in ast.walk(qm) if isinstance(n, ast.Call)]
        esc = [c for c in calls_ if Q.callee_attr(c) in ('escape_str',
                                                        'write')]
        rets = Q.returns(qm)
        okq = not esc and len(rets) == 1 and isinstance(
            rets[0].value, ast.Call) and Q.callee_attr(
                rets[0].value) == 'quote' and len(calls_) == 1
        ctx.ob(R, short + '|quote-is-plain-sh-quote', okq, qm,
               'Writer.quote does more than sh-quote its argument: text '
               'that was already escaped for the build file would be '
               'escaped twice')

    # (1) shelly
    vals = Q.local_assignments(fn, 'shelly')
    Q.require(len(vals) == 1 and vals[0] is not None,
              short + ': `shelly` not assigned exactly once')
    got = set()
    for m in members:
        t = fold_test(repo, mod, vals[0], cls,
                      {'syntax': EnumMember(syn_mod + ':Syntax', m)})
        if t is None:
            raise AnalysisError(short + ': cannot fold shelly for ' + m)
        if t:
            got.add(m)
    ctx.ob(R, short + '|shelly-set', got == set(shelly_members), fn,
           'shell quoting is applied for syntaxes {} but the shell contexts '
           'are {}'.format(sorted(got), sorted(shelly_members)))

    branches = _isinstance_branches(fn)
    Q.require(len(branches) >= 4, short + ': isinstance dispatch not found')
    by_type = {}
    for ty, body, node in branches:
        by_type.setdefault(ty.split('.')[-1], []).append((body, node))

    def lit_calls(body):
        out = []
        for st in body:
            for n in ast.walk(st):
                if isinstance(n, ast.Call) and isinstance(
                        n.func, ast.Attribute) and \
                        n.func.attr == 'write_literal':
                    out.append(n)
        return out

    def is_escape_call(e):
        return (isinstance(e, ast.Call) and isinstance(
            e.func, ast.Attribute) and e.func.attr == 'escape_str')

    # (2) literal branch: writes thing.string raw, only under
    # isinstance(thing, literal)
    lit_types = [k for k in by_type if k in ('literal', 'literal_types')]
    Q.require(lit_types, short + ': no literal branch')
    for n in ast.walk(fn):
        if isinstance(n, ast.Call) and isinstance(n.func, ast.Attribute) \
                and n.func.attr == 'write_literal' and n.args:
            a = n.args[0]
            # origin classification
            origin = _origin(fn, a)
            br = _branch_of(branches, n)
            if origin == 'raw-attr-string':
                ok = br in ('literal',) or (not has_escape and
                                             br == 'literal_types')
                ctx.ob(R, short + '|raw-literal-guard|' + str(br), ok, n,
                       '`.string` of a non-literal type ({}) is written '
                       'without escaping'.format(br))
            elif origin == 'escape':
                ctx.ob(R, short + '|escaped|' + str(br), True, n, '')
            elif origin == 'nested-writer':
                ctx.ob(R, short + '|nested-writer|' + str(br), True, n, '')
            elif origin == 'raw-thing' and not has_escape:
                # pc writer has no build-file escaping layer (ESC-PC covers
                # the consequences)
                ctx.ob(R, short + '|raw-thing|' + str(br), True, n, '')
            else:
                ctx.ob(R, short + '|unescaped-origin|{}|{}'.format(
                    br, unparse(a)), False, n,
                    'value written to the stream is neither literal text, '
                    'an escape_str result nor nested-writer output: ' +
                    unparse(a))

    # (3) shell_literal branch escapes but does not quote
    if has_escape:
        Q.require('shell_literal' in by_type, short + ': no shell_literal '
                  'branch')
        body, node = by_type['shell_literal'][0]
        lc = lit_calls(body)
        ok = len(lc) == 1 and is_escape_call(lc[0].args[0]) and \
            'thing.string' in unparse(lc[0].args[0]) and \
            'syntax' in unparse(lc[0].args[0])
        ctx.ob(R, short + '|shell_literal-escaped', ok, node,
               'shell_literal is not passed through escape_str(.., syntax)')

    # (4) str branch: quote (if shelly) then escape
    Q.require('str' in by_type, short + ': no str branch')
    body, node = by_type['str'][0]
    quote_ifs = [s for s in body if isinstance(s, ast.If) and
                 'shelly' in unparse(s.test)]
    ok_q = False
    if quote_ifs:
        qi = quote_ifs[0]
        # positive use of shelly (not `not shelly`)
        pos = not any(isinstance(n, ast.UnaryOp) and isinstance(
            n.op, ast.Not) and 'shelly' in unparse(n.operand)
            for n in ast.walk(qi.test))
        asg = [s for s in qi.body if isinstance(s, ast.Assign) and
               isinstance(s.value, ast.Call) and
               unparse(s.value.func) == 'shell_quote' and
               unparse(s.value.args[0]) == 'thing']
        tgt_ok = False
        for s in asg:
            t = s.targets[0]
            if isinstance(t, ast.Tuple) and len(t.elts) == 2 and \
                    unparse(t.elts[0]) == 'thing' and \
                    unparse(t.elts[1]) == 'escaped':
                tgt_ok = True
        only_and = not any(isinstance(n, ast.BoolOp) and isinstance(
            n.op, ast.Or) for n in ast.walk(qi.test))
        ok_q = pos and tgt_ok and only_and and not qi.orelse
        idx_q = body.index(qi)
    ctx.ob(R, short + '|str-quoted-when-shelly', ok_q, node,
           'plain strings are not passed through shell_quote when the '
           'syntax is a shell context')
    lc = lit_calls(body)
    if has_escape:
        ok = len(lc) == 1 and is_escape_call(lc[0].args[0]) and \
            unparse(lc[0].args[0].args[0]) == 'thing' and \
            unparse(lc[0].args[0].args[1]) == 'syntax'
        ctx.ob(R, short + '|str-escaped-after-quote', ok, node,
               'the (quoted) string is not passed through '
               'escape_str(thing, syntax) before it is written')
        if ok and quote_ifs:
            stmt = lc[0]
            while stmt not in body:
                stmt = stmt._parent
            ctx.ob(R, short + '|str-quote-before-escape',
                   body.index(stmt) > idx_q, node,
                   'escape_str is applied before shell quoting')
    else:
        ok = len(lc) == 1 and unparse(lc[0].args[0]) == 'thing'
        ctx.ob(R, short + '|str-written-after-quote', ok, node,
               'the quoted string is not what is written')
        if ok and quote_ifs:
            stmt = lc[0]
            while stmt not in body:
                stmt = stmt._parent
            ctx.ob(R, short + '|str-quote-before-write',
                   body.index(stmt) > idx_q, node, 'written before quoting')

    # (5) jbos branch: recursion over all bits with same syntax & quoter
    Q.require('jbos' in by_type, short + ': no jbos branch')
    body, node = by_type['jbos'][0]
    loops = [s for s in body if isinstance(s, ast.For)]
    ok = False
    if len(loops) == 1 and unparse(loops[0].iter) == 'thing.bits':
        lv = unparse(loops[0].target)
        rec = [n for n in ast.walk(loops[0]) if isinstance(n, ast.Call) and
               unparse(n.func) == 'self.write']
        if len(rec) == 1:
            a = [unparse(x) for x in rec[0].args]
            ok = a == [lv, 'syntax', 'shell_quote']
            aug = [n for n in ast.walk(loops[0]) if isinstance(
                n, ast.AugAssign) and isinstance(n.op, ast.BitOr) and
                unparse(n.target) == 'escaped' and n.value is rec[0]]
            ok = ok and len(aug) == 1
    ctx.ob(R, short + '|jbos-recursion', ok, node,
           'jbos bits are not each written with self.write(bit, syntax, '
           'shell_quote) accumulating `escaped |=`')

    # (6) BasePath branch
    Q.require('BasePath' in by_type, short + ': no BasePath branch')
    body, node = by_type['BasePath'][0]
    txt = [unparse(s) for s in body]
    realize = [n for s in body for n in ast.walk(s)
               if isinstance(n, ast.Call) and Q.callee_attr(n) == 'realize']
    ok_r = len(realize) == 1 and len(realize[0].args) >= 2 and \
        unparse(realize[0].args[1]) == 'shelly'
    ctx.ob(R, short + '|path-realize-shelly', ok_r, node,
           'path is not realised with executable=shelly')
    nested = [n for s in body for n in ast.walk(s)
              if isinstance(n, ast.Call) and unparse(n.func) == 'out.write']
    ok_n = len(nested) == 1 and len(nested[0].args) == 3 and \
        unparse(nested[0].args[1]) == 'syntax' and \
        unparse(nested[0].args[2]).endswith('inner_quote_info')
    ctx.ob(R, short + '|path-inner-quote', ok_n, node,
           'realised path is not written through a nested writer with '
           'inner_quote_info (quote body without surrounding quotes)')
    wraps = [s for s in body if isinstance(s, ast.If) and
             'shelly' in unparse(s.test) and 'escaped' in unparse(s.test)]
    ok_w = False
    if wraps:
        w = wraps[0]
        only_and = isinstance(w.test, ast.BoolOp) and isinstance(
            w.test.op, ast.And) and not any(
                isinstance(n, ast.UnaryOp) for n in ast.walk(w.test))
        asg = [s for s in w.body if isinstance(s, ast.Assign) and isinstance(
            s.value, ast.Call) and unparse(s.value.func).endswith(
                'wrap_quotes')]
        ok_w = only_and and len(asg) == 1 and not w.orelse
        if ok_w:
            # the wrapped variable is the one holding getvalue() and the one
            # written
            v = unparse(asg[0].targets[0])
            lc = lit_calls(body)
            ok_w = unparse(asg[0].value.args[0]) == v and len(lc) == 1 and \
                unparse(lc[0].args[0]) == v and any(
                    isinstance(s, ast.Assign) and unparse(
                        s.targets[0]) == v and 'getvalue()' in unparse(
                            s.value) for s in body)
            esc_from_nested = any(
                isinstance(s, ast.Assign) and unparse(s.targets[0]) ==
                'escaped' and s.value is nested[0] for s in body) \
                if nested else False
            ok_w = ok_w and esc_from_nested
    ctx.ob(R, short + '|path-wrapped-as-unit', ok_w, node,
           'realised path (root variable + suffix) is not wrapped in one '
           'pair of quotes when it needed quoting')

    # (7) returns escaped
    rets = Q.returns(fn)
    ctx.ob(R, short + '|returns-escaped',
           len(rets) == 1 and unparse(rets[0].value) == 'escaped', fn,
           'write() does not return the escaped flag')
    # (8) unknown types raise
    last = branches[-1]
    ctx.ob(R, short + '|else-raises', last[0] == '<else>' and any(
        isinstance(s, ast.Raise) for s in last[1]), fn,
        'unknown fragment types are not rejected')

    # (9) default shell_quote is the full quoter
    d = Q.param_default(fn, 'shell_quote')
    dt = unparse(d) if d is not None else ''
    if dt.endswith('default_sentinel'):
        vals = [v for v in Q.local_assignments(fn, 'shell_quote')
                if v is not None]
        dt = unparse(vals[0]) if vals else ''
    ctx.ob(R, short + '|default-quoter', dt.endswith('quote_info') and
           not dt.endswith('inner_quote_info'), fn,
           'default shell_quote is {} (expected quote_info)'.format(dt))

    # (10) write_each / write_shell pass syntax through
    for meth in ('write_each', 'write_shell'):
        if meth not in cls.methods:
            continue
        mnode = cls.methods[meth]
        cs = [n for n in ast.walk(mnode) if isinstance(n, ast.Call) and
              unparse(n.func) in ('self.write', 'self.write_each')]
        ok = bool(cs) and all(len(c.args) >= 2 and unparse(c.args[1]) ==
                              'syntax' for c in cs)
        ctx.ob(R, '{}|{}-passes-syntax'.format(short, meth), ok, mnode,
               meth + ' does not forward its syntax argument')
        if meth == 'write_each':
            d = Q.param_default(mnode, 'delim')
            ok = d is not None and isinstance(d, ast.Call) and unparse(
                d.func).endswith('literal') and const_eval(
                    repo, mod, d.args[0]) == ' '
            ctx.ob(R, short + '|write_each-delim', ok, mnode,
                   'default delimiter is not the literal single space')


def _branch_of(branches, node):
    n = node
    chain = set()
    while n is not None:
        chain.add(n)
        n = getattr(n, '_parent', None)
    for ty, body, ifnode in branches:
        for st in body:
            if st in chain:
                return ty.split('.')[-1]
    return None


def _origin(fn, a):
    if isinstance(a, ast.Attribute) and a.attr == 'string':
        return 'raw-attr-string'
    if isinstance(a, ast.Call) and isinstance(a.func, ast.Attribute) and \
            a.func.attr == 'escape_str':
        return 'escape'
    if isinstance(a, ast.Name):
        vals = [v for v in Q.local_assignments(fn, a.id)]
        reals = [v for v in vals if v is not None]
        txt = [unparse(v) for v in reals]
        if any('getvalue()' in t for t in txt) and all(
                'getvalue()' in t or 'wrap_quotes' in t or
                'realize(' in t or t.startswith('safe_str.safe_str(') or
                t.startswith('shell_quote(')
                for t in txt):
            return 'nested-writer'
        if a.id == 'thing':
            return 'raw-thing'
    return 'other'


# ---------------------------------------------------------------------------
# SH-SAFE
# ---------------------------------------------------------------------------
def sh_safe(ctx, include_make_recipe=False, rule_id='SH-SAFE'):
    repo = ctx.repo
    R = rule_id
    ctx.rule(R, 'characters that posix.inner_quote_info leaves unquoted are '
             'not special to sh (word / command-word position' +
             (' / first position of a Make recipe' if include_make_recipe
              else '') + '); the quote replacement lexes back to a quote; '
             'raw shell tokens inserted by env/join helpers are constants')
    m = repo.module(POSIX)
    f = repo.func(POSIX + ':inner_quote_info')
    # which regex decides "needs quoting"?
    searches = [n for n in ast.walk(f.node) if isinstance(n, ast.Call) and
                Q.callee_attr(n) in ('search', 'match', 'fullmatch')]
    Q.require(len(searches) == 1, 'inner_quote_info: expected one regex '
              'test deciding whether to quote')
    s = searches[0]
    rc = const_eval(repo, m, s.func.value)
    Q.require(isinstance(rc, RegexConst), 'inner_quote_info: regex is not a '
              'module constant')
    Q.require(Q.callee_attr(s) == 'search', 'inner_quote_info: quoting test '
              'is not a search for a bad character')
    # characters that trigger quoting wherever they occur in the word; a
    # `^c` alternative only covers the first position and does not count
    # (sh also expands `~` after `:` / `=` in assignment words, and bfg9000
    # writes environment values as NAME=value words)
    bad, _at_end = rx.search_alternative_chars(rc.pattern)
    safe = [c for c in rx.SIGMA if c not in bad]
    ctx.stat('sh_unquoted_chars', ''.join(sorted(safe)))
    # the test must lead to the quoting branch (positive use)
    par = s._parent
    ok = isinstance(par, ast.If) and par.test is s
    ctx.ob(R, 'inner_quote_info|bad-char-test-selects-quoting', ok, s,
           'the bad-character test does not directly select the quoting '
           'branch')
    for ch, why in sorted(T.SH_WORD.items()):
        ctx.ob(R, 'posix._bad_chars|word|{!r}'.format(ch), ch in bad, s,
               '{!r} ({}) is left unquoted by the sh quoter'.format(ch, why))
    for ch, why in sorted(T.SH_CMDWORD_EXTRA.items()):
        ctx.ob(R, 'posix._bad_chars|command-word|{!r}'.format(ch), ch in bad,
               s, '{!r} is left unquoted: {}'.format(ch, why))
    if include_make_recipe:
        for ch, why in sorted(T.MK_RECIPE_FIRST.items()):
            ctx.ob(R, 'posix._bad_chars|make-recipe-first|{!r}'.format(ch),
                   ch in bad, s,
                   '{!r} is left unquoted and can start a recipe line: {}'
                   .format(ch, why))
    # non-ASCII letters are word characters for \w: harmless to sh
    # quote replacement
    if isinstance(par, ast.If):
        rets = [n for st in par.body for n in ast.walk(st)
                if isinstance(n, ast.Return)]
        ok = False
        detail = 'quoting branch does not return (s.replace("\'", ..), True)'
        if len(rets) == 1 and isinstance(rets[0].value, ast.Tuple) and \
                len(rets[0].value.elts) == 2:
            v, flag = rets[0].value.elts
            if isinstance(v, ast.Call) and Q.callee_attr(v) == 'replace' \
                    and len(v.args) == 2 and const_eval(
                        repo, m, flag) is True:
                old = const_eval(repo, m, v.args[0])
                new = const_eval(repo, m, v.args[1])
                if old == "'" and isinstance(new, str):
                    lexed = T.sh_single_quote_lex("'a" + new + "b'")
                    ok = lexed == "a'b"
                    detail = ('the replacement {!r} for a single quote, '
                              'placed inside single quotes, lexes to {!r} '
                              'instead of a quote'.format(new, lexed))
        ctx.ob(R, 'inner_quote_info|quote-replacement', ok, par, detail)
    # empty string -> '' (quoted)
    ok = False
    for n in ast.walk(f.node):
        if isinstance(n, ast.If) and isinstance(n.test, ast.Compare) and \
                const_eval(repo, m, n.test.comparators[0]) == '':
            r = [x for st in n.body for x in ast.walk(st)
                 if isinstance(x, ast.Return)]
            if len(r) == 1 and isinstance(r[0].value, ast.Tuple) and \
                    const_eval(repo, m, r[0].value.elts[1]) is True and \
                    const_eval(repo, m, r[0].value.elts[0]) == '':
                ok = True
    ctx.ob(R, 'inner_quote_info|empty-string-quoted', ok, f.node,
           "the empty string is not reported as needing quotes ('')")
    # shell_literal passes through unquoted *only* for shell_literal
    ok = False
    for n in ast.walk(f.node):
        if isinstance(n, ast.If) and unparse(n.test) == \
                'isinstance(s, shell_literal)':
            r = [x for st in n.body for x in ast.walk(st)
                 if isinstance(x, ast.Return)]
            ok = len(r) == 1 and unparse(r[0].value) == '(s.string, False)'
    ctx.ob(R, 'inner_quote_info|shell_literal-passthrough', ok, f.node,
           'shell_literal handling changed')
    # fallthrough for clean strings returns (s, False)
    # quote_info wraps when quoted
    qf = repo.func(POSIX + ':quote_info')
    rets = Q.returns(qf.node)
    last = rets[-1] if rets else None
    rets_sorted = sorted(rets, key=lambda r: r.lineno)
    last = rets_sorted[-1] if rets_sorted else None
    ok = last is not None and isinstance(last.value, ast.IfExp) and \
        unparse(last.value.test) == 'quoted' and \
        unparse(last.value.body) == '(wrap_quotes(s), True)' and \
        unparse(last.value.orelse) == '(s, False)'
    ctx.ob(R, 'quote_info|wrap-when-quoted', ok, qf.node,
           'quote_info does not return (wrap_quotes(s), True) exactly when '
           'inner_quote_info reported quoting')
    calls_inner = [n for n in ast.walk(qf.node) if isinstance(n, ast.Call)
                   and unparse(n.func) == 'inner_quote_info']
    ctx.ob(R, 'quote_info|uses-inner_quote_info', len(calls_inner) == 1,
           qf.node, 'quote_info does not delegate to inner_quote_info')
    # wrap_quotes: short strings wrapped in quotes
    wf = repo.func(POSIX + ':wrap_quotes')
    ok = False
    for r in Q.returns(wf.node):
        if unparse(r.value) in ('"\'" + s + "\'"',):
            ok = True
    ctx.ob(R, 'wrap_quotes|plain-wrap', ok, wf.node,
           'wrap_quotes has no plain \'"\'" + s + "\'"\' path')
    # raw tokens inserted by env helpers are constants
    for fname, allowed in (('local_env', {'='}), ('global_env', {'='}),
                           ('join_lines', {'&&'})):
        ff = repo.func(POSIX + ':' + fname)
        for n in ast.walk(ff.node):
            if isinstance(n, ast.Call) and unparse(n.func) in (
                    'shell_literal', 'literal'):
                v = const_eval(repo, m, n.args[0]) if n.args else UNKNOWN
                ctx.ob(R, '{}|raw-token|{}'.format(fname, unparse(n)),
                       isinstance(v, str) and v in allowed, n,
                       'raw shell token {} inserted by {} (allowed: {})'
                       .format(unparse(n), fname, sorted(allowed)))
    # env assignments: NAME=value built as one word (jbos) with raw '='
    for fname in ('local_env', 'global_env'):
        ff = repo.func(POSIX + ':' + fname)
        j = [n for n in ast.walk(ff.node) if isinstance(n, ast.Call) and
             unparse(n.func) == 'jbos']
        ok = len(j) == 1 and [unparse(a) for a in j[0].args] == [
            'safe_str(name)', 'eq', 'safe_str(value)']
        ctx.ob(R, fname + '|assignment-is-one-word', ok, ff.node,
               'NAME=value is not built as jbos(safe_str(name), eq, '
               'safe_str(value))')
    ff = repo.func(POSIX + ':global_env')
    strs = [n.value for n in ast.walk(ff.node) if isinstance(
        n, ast.Constant) and isinstance(n.value, str)]
    ctx.ob(R, 'global_env|export-keyword', 'export' in strs, ff.node,
           'global_env does not emit `export`')


# ---------------------------------------------------------------------------
# LITERAL-ORIGIN / LIT-SITES
# ---------------------------------------------------------------------------
SANITISED_NAME_OWNERS = {
    # class fq -> how `self.name` is sanitised
    MAKE_SYN + ':Variable': 're.sub in Variable.__init__',
    MAKE_SYN + ':Function': 'constant function names at every construction',
    MAKE_SYN + ':NamedEntity': 'base of Variable/Function',
    NINJA_SYN + ':Variable': 're.sub(\\W) in Variable.__init__',
    PC_SYN + ':Variable': 'constructed from enum member names only',
}

LITERAL_ALLOW = {
    # function fq -> reason
    POSIX + ':_escape_word':
        'string-form command lines are raw shell by documented contract',
    'bfg9000.shell.windows:escape_line':
        'string-form command lines are raw shell by documented contract '
        '(windows sibling)',
    'bfg9000.builtins.pkg_config:SimpleRequirement._safe_str':
        'pkg-config module names/versions follow the pkg-config grammar '
        '(PC-OPS checks the operator)',
}


class ConstClassifier:
    """Is a string expression built only from constants and sanitised
    identifiers?"""

    def __init__(self, repo, finfo):
        self.repo = repo
        self.f = finfo
        self.mod = finfo.module if finfo else None
        self.cls = None
        if finfo is not None:
            self.cls = finfo.cls or repo.enclosing_class(finfo.node)
        self._stack = set()

    def ok(self, e):
        repo = self.repo
        v = const_eval(repo, self.mod, e, self.cls)
        if isinstance(v, str):
            return True
        if isinstance(e, ast.BinOp) and isinstance(e.op, (ast.Add, ast.Mult)):
            return self.ok(e.left) and self.ok(e.right)
        if isinstance(e, ast.BinOp) and isinstance(e.op, ast.Mod):
            return self.ok(e.left) and self.ok(e.right)
        if isinstance(e, ast.Tuple):
            return all(self.ok(x) for x in e.elts)
        if isinstance(e, ast.IfExp):
            return self.ok(e.body) and self.ok(e.orelse)
        if isinstance(e, ast.Constant):
            return True
        if isinstance(e, ast.Call):
            fn = unparse(e.func)
            if isinstance(e.func, ast.Attribute) and e.func.attr == 'format':
                return self.ok(e.func.value) and all(
                    self.ok(a) for a in e.args) and all(
                        self.ok(k.value) for k in e.keywords)
            if fn.endswith('wrap_quotes') and len(e.args) == 1:
                return self.ok(e.args[0])
            if fn in ('str',) and len(e.args) == 1:
                return self.ok(e.args[0])
            return False
        if isinstance(e, ast.Attribute):
            if e.attr == 'name' and isinstance(e.value, ast.Name):
                if e.value.id == 'self' and self.cls is not None:
                    return any(c.fq in SANITISED_NAME_OWNERS
                               for c in self.cls.mro())
                # `name.name` where name is a Variable by construction
                # (var(...)/Variable(...)) -- parameters of the private
                # _write_* helpers
                return self._is_variable(e.value)
            return False
        if isinstance(e, ast.Name):
            if e.id in self._stack:
                return True
            vals = Q.local_assignments(self.f.node, e.id) if self.f else []
            if vals and all(v is not None for v in vals):
                self._stack.add(e.id)
                r = all(self.ok(v) for v in vals)
                self._stack.discard(e.id)
                return r
            if self.f is not None and e.id in ('indent',):
                return True
            return False
        return False

    def _is_variable(self, name_node):
        """`x.name` where every value of x is a backend Variable."""
        f = self.f
        if f is None:
            return False
        nm = name_node.id
        vals = Q.local_assignments(f.node, nm)
        if vals:
            return all(v is not None and isinstance(v, ast.Call) and
                       unparse(v.func) in ('var', 'Variable', 'qvar',
                                           'make.var', 'ninja.var')
                       for v in vals)
        if nm in Q.params(f.node):
            # parameter of a private writer helper: check all callers
            plist = Q.params(f.node)
            idx = plist.index(nm) - (1 if plist[0] in ('self', 'cls') else 0)
            callers = Q.find_callers(self.repo, f)
            if not callers:
                return False
            for m, c, exact in callers:
                a = Q.arg(c, idx, nm)
                if a is None:
                    return False
                caller = self.repo.enclosing_func(c)
                if not _variable_valued(self.repo, caller, a):
                    return False
            return True
        return False


def _variable_valued(repo, fn, a, depth=0):
    """Is expression `a` (in function fn) always a backend Variable?"""
    if isinstance(a, ast.Call) and unparse(a.func) in (
            'var', 'Variable', 'qvar'):
        return True
    if depth > 3 or fn is None:
        return False
    if isinstance(a, ast.Name):
        # loop variable over a table filled only with var()-normalised names
        for n in walk_no_nested(fn.node):
            if isinstance(n, ast.For):
                names = [x.id for x in ast.walk(n.target)
                         if isinstance(x, ast.Name)]
                if a.id in names:
                    it = unparse(n.iter)
                    if any(k in it for k in (
                            '_global_variables', '_target_variables',
                            '_defines', 'variables.items()',
                            '_variables[section]')):
                        return _table_keys_are_vars(repo, fn, it)
        vals = Q.local_assignments(fn.node, a.id)
        if vals and all(v is not None for v in vals):
            return all(_variable_valued(repo, fn, v, depth + 1)
                       for v in vals)
    return False


def _table_keys_are_vars(repo, fn, it):
    """The name tables of Makefile/NinjaFile are filled only with the result
    of var()/_unique_var(); build/rule variables dicts are normalised with
    var(k)."""
    cls = fn.cls
    if cls is None:
        return False
    src = ast.unparse(cls.node)
    if 'variables.items()' in it:
        return '{var(k):' in src.replace('\n', ' ')
    # appended tuples (name, value) where name comes from var()/_unique_var
    for meth in cls.methods.values():
        for n in ast.walk(meth):
            if isinstance(n, ast.Call) and Q.callee_attr(n) == 'append' and \
                    isinstance(n.func.value, (ast.Attribute, ast.Subscript)):
                tgt = unparse(n.func.value)
                if any(k in tgt for k in ('_global_variables',
                                          '_target_variables', '_defines',
                                          '_variables[')):
                    if not (n.args and isinstance(n.args[0], ast.Tuple) and
                            isinstance(n.args[0].elts[0], ast.Name)):
                        return False
                    nm = n.args[0].elts[0].id
                    vals = Q.local_assignments(meth, nm)
                    okv = vals and all(
                        v is None or (isinstance(v, ast.Call) and unparse(
                            v.func) in ('var', 'self._unique_var'))
                        for v in vals)
                    if not okv:
                        return False
    return True


def _resolve_literal_ctor(repo, mod, fn, call):
    """Does this call construct safe_str.literal / shell_literal?"""
    local = repo.local_scope(fn)
    if not isinstance(call.func, (ast.Name, ast.Attribute)):
        return None
    r = repo.resolve_expr(mod, call.func, local)
    if r and r[0] == 'class' and r[1].fq in (
            'bfg9000.safe_str:literal', 'bfg9000.safe_str:shell_literal',
            'bfg9000.safe_str:literal_types'):
        return r[1].name
    return None


def literal_origin(ctx, modules=None, rule_id='LITERAL-ORIGIN'):
    repo = ctx.repo
    R = rule_id
    ctx.rule(R, 'every safe_str.literal / shell_literal (text exempt from '
             'escaping) is constructed from constants, sanitised identifiers '
             'or already-escaped writer output')
    n = 0
    for m in sorted(repo.modules.values(), key=lambda x: x.name):
        if modules is not None and m.name not in modules:
            continue
        if m.name.startswith('bfg9000.backends.msbuild') or \
                m.name.startswith('bfg9000.tools.msvc'):
            continue
        for c in ast.walk(m.tree):
            if not isinstance(c, ast.Call):
                continue
            fn = repo.enclosing_func(c)
            kind = _resolve_literal_ctor(repo, m, fn, c)
            if kind is None or not c.args:
                continue
            n += 1
            a = c.args[0]
            key = '{}|{}({})'.format(fn.fq if fn else m.name, kind,
                                     unparse(a))
            if fn is not None and fn.fq in LITERAL_ALLOW:
                ctx.ob(R, key, True, c, 'allow-listed: ' +
                       LITERAL_ALLOW[fn.fq])
                continue
            cc = ConstClassifier(repo, fn) if fn else None
            if fn is None:
                v = const_eval(repo, m, a)
                ok = isinstance(v, str)
            else:
                ok = cc.ok(a)
                if not ok and _is_writer_output(fn, a):
                    ok = _collapsed_quoted(ctx, R, fn, c)
            ctx.ob(R, key, ok, c,
                   '{}({}) exempts script-derived text from escaping'
                   .format(kind, unparse(a)))
    ctx.require_min(R, n, 20, 'literal constructions')
    # sanitisation claims used above
    _check_sanitisers(ctx, R)


def _is_writer_output(fn, a):
    if not isinstance(a, ast.Name):
        return False
    vals = [v for v in Q.local_assignments(fn.node, a.id) if v is not None]
    return bool(vals) and any('getvalue()' in unparse(v) for v in vals) and \
        all('getvalue()' in unparse(v) or '.quote(' in unparse(v)
            for v in vals)


def _collapsed_quoted(ctx, R, fn, call):
    """tests._build_commands.command: the collapsed child command line is the
    output of a Writer; when it has more than one word it must be quoted with
    out.quote before being embedded as a literal."""
    quotes = [n for n in ast.walk(fn.node) if isinstance(n, ast.Assign) and
              isinstance(n.value, ast.Call) and
              Q.callee_attr(n.value) == 'quote']
    ok = False
    for q in quotes:
        par = q._parent
        if isinstance(par, ast.If):
            t = unparse(par.test)
            ok = t in ('len(subcmd) > 1', 'len(subcmd) >= 2',
                       'len(subcmd) != 1') and not par.orelse
    ctx.ob(R, fn.fq + '|collapsed-command-quoted', ok, call,
           'collapsed multi-word child command is not quoted with out.quote '
           'before being embedded')
    ws = [n for n in ast.walk(fn.node) if isinstance(n, ast.Call) and
          Q.callee_attr(n) == 'write_shell']
    ctx.ob(R, fn.fq + '|collapsed-command-written-by-writer',
           len(ws) == 1, call, 'child command is not rendered by the '
           'backend writer')
    return ok and len(ws) == 1


def _check_sanitisers(ctx, R):
    repo = ctx.repo
    # make Variable: re.sub(class, '_', name) with class >= {space : # =}
    f = repo.method(MAKE_SYN + ':Variable', '__init__')
    subs = [n for n in ast.walk(f.node) if isinstance(n, ast.Call) and
            unparse(n.func) == 're.sub']
    ok = False
    if len(subs) == 1:
        pat = const_eval(repo, f.module, subs[0].args[0])
        if isinstance(pat, str):
            chars = rx.class_chars(pat)
            ok = {' ', '\t', ':', '#', '='} <= chars
            sup = [n for n in ast.walk(f.node) if isinstance(n, ast.Call)
                   and unparse(n.func) == 'super().__init__']
            ok = ok and len(sup) == 1 and sup[0].args[0] is subs[0]
    ctx.ob(R, 'sanitiser|make.Variable.name', ok, f.node,
           'make Variable names are not sanitised of whitespace : # =')
    f = repo.method(NINJA_SYN + ':Variable', '__init__')
    subs = [n for n in ast.walk(f.node) if isinstance(n, ast.Call) and
            unparse(n.func) == 're.sub']
    ok = False
    if len(subs) == 1:
        pat = const_eval(repo, f.module, subs[0].args[0])
        if isinstance(pat, str):
            chars = rx.class_chars(pat)
            ok = {' ', '$', ':', '=', '\t', '|', '#'} <= chars
            asg = [n for n in ast.walk(f.node) if isinstance(n, ast.Assign)
                   and unparse(n.targets[0]) == 'self.name']
            ok = ok and len(asg) == 1 and asg[0].value is subs[0]
    ctx.ob(R, 'sanitiser|ninja.Variable.name', ok, f.node,
           'ninja Variable names are not sanitised')
    # make Function names are constants at every construction
    for m, c in Q.all_calls(repo):
        r = repo.resolve_expr(m, c.func) if isinstance(
            c.func, (ast.Name, ast.Attribute)) else None
        if r and r[0] == 'class' and r[1].fq == MAKE_SYN + ':Function':
            v = const_eval(repo, m, c.args[0]) if c.args else UNKNOWN
            ctx.ob(R, 'sanitiser|make.Function.name|' + unparse(c)[:60],
                   isinstance(v, str) and v.isidentifier(), c,
                   'make function name is not a constant identifier')
    # pc Variable constructed from enum names only
    for m, c in Q.all_calls(repo):
        r = repo.resolve_expr(m, c.func) if isinstance(
            c.func, (ast.Name, ast.Attribute)) else None
        if r and r[0] == 'class' and r[1].fq == PC_SYN + ':Variable':
            ok = c.args and unparse(c.args[0]) == 'i.name'
            ctx.ob(R, 'sanitiser|pc.Variable.name|' + unparse(c), ok, c,
                   'pkg-config variable name is not an enum member name')


def lit_sites(ctx, modules, rule_id='LIT-SITES', minimum=10):
    """write_literal(...) outside Writer.write: constants and sanitised
    identifiers only."""
    repo = ctx.repo
    R = rule_id
    ctx.rule(R, 'every write_literal call outside Writer.write passes only '
             'string constants, concatenations of constants and sanitised '
             'identifiers (one allow-listed header comment)')
    n = 0
    for mn in modules:
        m = repo.module(mn)
        for c in ast.walk(m.tree):
            if not (isinstance(c, ast.Call) and isinstance(
                    c.func, ast.Attribute) and
                    c.func.attr == 'write_literal' and c.args):
                continue
            fn = repo.enclosing_func(c)
            if fn is None:
                continue
            if fn.node.name in ('write', 'write_literal', 'write_shell') \
                    and fn.cls is not None and fn.cls.name == 'Writer':
                if fn.node.name == 'write_shell':
                    # Silent prefix '@'
                    v = const_eval(repo, m, c.args[0])
                    ctx.ob(R, fn.fq + '|' + unparse(c.args[0]),
                           isinstance(v, str), c, 'non-constant literal')
                continue
            n += 1
            a = c.args[0]
            key = '{}|{}'.format(fn.fq, unparse(a))
            txt = unparse(a)
            if '_comment_tmpl.format(self._bfgfile)' in txt:
                ctx.ob(R, key, True, c, 'allow-listed: header comment with '
                       'the build.bfg path (a line break is excluded by the '
                       'property)')
                continue
            if isinstance(a, ast.BinOp) and unparse(a.right) == 'build.rule' \
                    or txt == "'rule ' + name + '\\n'":
                # ninja rule names: validated by the \W guard in
                # NinjaFile.rule (checked below)
                ctx.ob(R, key, _ninja_rule_name_guard(ctx), c,
                       'ninja rule name is not validated before use')
                continue
            cc = ConstClassifier(repo, fn)
            ctx.ob(R, key, cc.ok(a), c,
                   'write_literal({}) writes script-derived text without '
                   'escaping'.format(txt))
    ctx.require_min(R, n, minimum, 'write_literal sites')


_ninja_guard_cache = {}


def _ninja_rule_name_guard(ctx):
    repo = ctx.repo
    if 'v' in _ninja_guard_cache and _ninja_guard_cache.get('d') == \
            repo.digest:
        return _ninja_guard_cache['v']
    from ..cfg import build as build_cfg
    f = repo.method(NINJA_SYN + ':NinjaFile', 'rule')
    g = build_cfg(f.node)
    guards = []
    for n in walk_no_nested(f.node):
        if isinstance(n, ast.If) and any(isinstance(s, ast.Raise)
                                         for s in n.body):
            for c in ast.walk(n.test):
                if isinstance(c, ast.Call) and unparse(c.func) in (
                        're.search', 're.match') and c.args:
                    pat = const_eval(repo, f.module, c.args[0])
                    if isinstance(pat, str):
                        try:
                            chars = rx.class_chars(pat)
                        except AnalysisError:
                            continue
                        if {' ', '$', ':', '\t', '|', '#', '='} <= chars \
                                and unparse(c.func) == 're.search':
                            guards.append(n)
    stores = [n for n in walk_no_nested(f.node) if isinstance(n, ast.Assign)
              and any(isinstance(t, ast.Subscript) and unparse(t.value) ==
                      'self._rules' for t in n.targets)]
    ok = bool(guards) and bool(stores) and all(
        any(g.dominates(gd, s) for gd in guards) for s in stores)
    # build() only accepts registered rule names or 'phony'
    b = repo.method(NINJA_SYN + ':NinjaFile', 'build')
    gb = build_cfg(b.node)
    g2 = [n for n in walk_no_nested(b.node) if isinstance(n, ast.If) and
          'has_rule' in unparse(n.test) and any(
              isinstance(s, ast.Raise) for s in n.body)]
    ap = [n for n in walk_no_nested(b.node) if isinstance(n, ast.Call) and
          Q.callee_attr(n) == 'append' and '_builds' in unparse(n.func)]
    ok = ok and bool(g2) and bool(ap) and all(
        any(gb.dominates(gd, gb.stmt_of(a)) for gd in g2) for a in ap)
    _ninja_guard_cache['v'] = ok
    _ninja_guard_cache['d'] = repo.digest
    return ok
