"""Root provenance of Path expressions: which root (builddir / srcdir / other)
can a path-valued expression have? Used by OUTPUT-ROOT and WRITE-ROOT."""
import ast

from ..consteval import EnumMember, UNKNOWN, const_eval
from ..index import unparse, walk_no_nested
from .. import query as Q

BUILD = 'builddir'
SRC = 'srcdir'

# methods of BasePath that return a path with the receiver's root
SAME_ROOT = {'append', 'addext', 'stripext', 'parent', 'as_directory',
             'splitleaf'}


class RootEval:
    def __init__(self, repo, finfo, param_roots=None):
        self.repo = repo
        self.f = finfo
        self.mod = finfo.module
        self.param_roots = param_roots or {}
        self._stack = set()

    def _root_const(self, e):
        v = const_eval(self.repo, self.mod, e)
        if isinstance(v, EnumMember) and v.enum.endswith(':Root'):
            return v.name
        return None

    def is_path_ctor(self, call):
        f = call.func
        name = Q.attr_name(f)
        if name != 'Path':
            return False
        return True

    def root(self, e):
        """Set of possible roots of expression e ('?<text>' when unknown)."""
        if isinstance(e, ast.Call):
            f = e.func
            name = Q.attr_name(f)
            if self.is_path_ctor(e):
                r = Q.arg(e, 1, 'root')
                if r is None:
                    return {BUILD}
                c = self._root_const(r)
                if c is not None:
                    return {c}
                return self.root(r)
            if isinstance(f, ast.Attribute):
                if name == 'reroot':
                    r = Q.arg(e, 0, 'root')
                    if r is None:
                        return {BUILD}
                    c = self._root_const(r)
                    return {c} if c else {'?' + unparse(e)}
                if name in SAME_ROOT:
                    return self.root(f.value)
                if name == 'clone':
                    return {'?' + unparse(e)}
            if name == 'within_directory' and len(e.args) == 2:
                return self.root(e.args[1])
            if name == 'buildpath':
                strict = Q.arg(e, 2, 'strict')
                if strict is not None and const_eval(
                        self.repo, self.mod, strict) is True:
                    return {BUILD}
                return {'?non-strict ' + unparse(e)}
            if name == '_get_path' and len(e.args) == 1:
                return self.root(e.args[0])
            return {'?' + unparse(e)}
        if isinstance(e, ast.Subscript):
            return self.root(e.value)
        if isinstance(e, ast.Attribute):
            if e.attr == 'path':
                return self.root(e.value)
            return {'?' + unparse(e)}
        if isinstance(e, ast.IfExp):
            return self.root(e.body) | self.root(e.orelse)
        if isinstance(e, ast.Name):
            if e.id in self.param_roots:
                return set(self.param_roots[e.id])
            if e.id in self._stack:
                return set()
            vals = Q.local_assignments(self.f.node, e.id)
            if not vals:
                # maybe a module-level constant
                r = self.repo.resolve_symbol(self.mod.name, e.id)
                if r and r[0] == 'value' and r[3] is not None:
                    sub = RootEval(self.repo, self.f)
                    sub.mod = r[1]
                    return sub.root(r[3])
                return {'?' + e.id}
            self._stack.add(e.id)
            out = set()
            for v in vals:
                if v is None:
                    out.add('?' + e.id)
                else:
                    out |= self.root(v)
            self._stack.discard(e.id)
            return out
        return {'?' + unparse(e)}
