"""Escaping rules on flow facts (second generation; replaces the lexical
site extraction of escape.py for ESC-*, SYNTAX-POSITION, WRITE-FLOW, SH-SAFE,
LIT-SITES and LITERAL-ORIGIN).

  ESC-<backend>     per Syntax member: the member's escape chain (extracted
                    from Writer.escape_str by substchain) alters every
                    metacharacter of the lexical contexts the member is
                    designed for. Keys are <context>|Syntax.<member>|<char>:
                    a finding is a (context, member, character), wherever
                    the code that writes it lives.
  SYNTAX-POSITION   which members reach which *data* of the build-file model
                    (rule targets, prerequisites, recipes, variable values,
                    ...), found by value flow from the backend's write()
                    entry point through its helpers (parameters bound), so
                    moving a loop into a helper or renaming a local changes
                    nothing.
  WRITE-FLOW        facts about Writer.write: what reaches the stream is
                    literal text (only under the literal guard), an
                    escape_str result or nested-writer output; plain strings
                    are shell-quoted (exactly for the shell contexts) before
                    they are escaped; paths are realised, quoted as one unit.
  SH-SAFE           the sh quoter's bad-character regex evaluated on every
                    ASCII character (constant evaluation of the pattern).
"""
import ast
import re

from ..consteval import (EnumMember, RegexConst, UNKNOWN, const_eval,
                         enum_members, fold_test)
from ..facts import (Facts, components, direct, has, has_call, has_const,
                     param_of)
from ..index import AnalysisError, unparse, walk_no_nested
from .. import query as Q
from .. import rx
from .. import substchain
from .. import tables as T
from .escape import (CONTEXT_TABLE, LITERAL_ALLOW, MAKE_SYN, NINJA_SYN,
                     PC_SYN, POSIX, escape_table)

DESIGNED = {
    MAKE_SYN: {'target': ['MK_TARGET'], 'dependency': ['MK_PREREQ'],
               'shell': ['MK_VARVALUE', 'MK_RECIPE', 'MK_DEFINE'],
               'clean': ['MK_VARVALUE'], 'function': ['MK_FUNCARG']},
    NINJA_SYN: {'output': ['NJ_PATH'], 'input': ['NJ_PATH'],
                'shell': ['NJ_VARVALUE'], 'clean': ['NJ_VARVALUE']},
    PC_SYN: {'shell': ['PC_VALUE'], 'variable': ['PC_VALUE']},
}


def _facts(ctx):
    f = getattr(ctx, '_facts', None)
    if f is None:
        f = ctx._facts = Facts(ctx.repo)
    return f


# ---------------------------------------------------------------------------
def esc_members(ctx, rule_id, syn_mod, table, contexts, only_members=None):
    """Obligation per (context, member, metachar)."""
    n = 0
    for m, cnames in sorted(DESIGNED[syn_mod].items()):
        if only_members is not None and m not in only_members:
            continue
        for cname in cnames:
            if cname not in contexts:
                continue
            anywhere, start = CONTEXT_TABLE[cname]
            if m not in table:
                ctx.ob(rule_id, '{}|Syntax.{}|member-missing'.format(
                    cname, m), False, None,
                    'Syntax.{} no longer exists'.format(m))
                continue
            ops = table.get(m)
            if ops is None:
                ctx.ob(rule_id, '{}|Syntax.{}|rejected'.format(cname, m),
                       False, None, 'Syntax.{} is rejected by escape_str'
                       .format(m))
                continue
            for ch, why in sorted(anywhere.items()):
                n += 1
                ctx.ob(rule_id, '{}|Syntax.{}|{!r}'.format(cname, m, ch),
                       substchain.altered(ops, ch, at_start=True), None,
                       '{!r} ({}) is written unescaped in context {} by '
                       'Syntax.{}'.format(ch, why, cname, m))
            for ch, why in sorted(start.items()):
                n += 1
                ctx.ob(rule_id, '{}|Syntax.{}|^{!r}'.format(cname, m, ch),
                       substchain.altered(ops, ch, at_start=True), None,
                       'leading {!r} ({}) is written unescaped in context '
                       '{} by Syntax.{}'.format(ch, why, cname, m))
            # the converse: an escape the reader does not undo in this
            # context arrives literally (a backslash before '#' in a recipe
            # line is passed to the shell as it stands)
            escaped = set()
            for op in ops:
                escaped |= set(op.anywhere)
            undone = set(anywhere) | set(start) | set(
                T.UNESCAPED_TOO.get(cname, ()))
            for ch in sorted(escaped - undone):
                n += 1
                ctx.ob(rule_id, '{}|Syntax.{}|over-escaped|{!r}'.format(
                    cname, m, ch), False, None,
                    'Syntax.{} escapes {!r}, but in context {} the reader '
                    'gives it no special meaning and does not remove the '
                    'escape: the escape characters reach the consumer'
                    .format(m, ch, cname))
            ctx.ob(rule_id, '{}|Syntax.{}|no-over-escaping'.format(cname, m),
                   True, None, '')
    return n


class Site:
    def __init__(self, eff, data, members):
        self.eff, self.data, self.members = eff, data, members


def writer_sites(ctx, entries, syn_mod, depth=2):
    """write / write_each / write_shell effects reachable from the entry
    functions (outside class Writer itself), with the data written and the
    Syntax members that can reach the call."""
    F = _facts(ctx)
    repo = ctx.repo
    members = set(enum_members(repo, syn_mod, 'Syntax'))
    out = []
    for fq in entries:
        f = F.fn(fq)
        for e in F.effects(f, lambda e: e.name in (
                'write', 'write_each', 'write_shell'), depth=depth):
            if e.fn.cls is not None and e.fn.cls.name == 'Writer':
                continue
            if not (has_call(e.recv(), 'Writer') or has_call(
                    e.recv(), 'writer') or param_of(e.recv(), 'out') or
                    any(a.endswith('out') for a in e.recv())):
                continue
            sa_ = e.arg(1, kw='syntax')
            ms = set()
            for a in sa_:
                cs = components(a)
                if len(cs) >= 2 and cs[-2] == 'Syntax' and cs[-1] in members:
                    ms.add(cs[-1])
            if not ms:
                # default of the Writer method's syntax parameter
                try:
                    w = repo.method(syn_mod + ':Writer', e.name)
                    d = Q.param_default(w.node, 'syntax')
                    v = const_eval(repo, w.module, d, w.cls) if d is not \
                        None else UNKNOWN
                    if isinstance(v, EnumMember):
                        ms.add(v.name)
                except AnalysisError:
                    pass
            data = {a for a in direct(e.arg(0))
                    if not a.startswith(('const:', 'alloc:'))}
            out.append(Site(e, data, ms))
    return out


def position_rule(ctx, rule_id, sites, roles, label):
    """roles: list of (pattern, allowed members, role name, required member
    or None). Every site whose data matches a role must use only allowed
    members; every role with a required member must be written with it at
    least once."""
    seen = {}
    unclassified = 0
    for s in sites:
        matched = [r for r in roles if has(s.data, *r[0])]
        if not matched:
            unclassified += 1
            continue
        for pat, allowed, name, req in matched:
            seen.setdefault(name, set()).update(s.members)
            ok = bool(s.members) and s.members <= set(allowed)
            ctx.ob(rule_id, '{}|{}|{}'.format(label, name, '/'.join(
                sorted(s.members)) or 'unknown'), ok, s.eff.call,
                '{} is written with Syntax.{} (expected one of {})'.format(
                    name, '/'.join(sorted(s.members)) or '?',
                    sorted(allowed)))
    for pat, allowed, name, req in roles:
        if req is None:
            continue
        ctx.ob(rule_id, '{}|{}|written-as-{}'.format(label, name, req),
               req in seen.get(name, ()), None,
               '{} is never written with Syntax.{}'.format(name, req))
    ctx.stat(label + '_sites_without_role', unclassified)


MAKE_ROLES = [
    (('_rules', 'targets'), ('target', 'dependency'), 'rule targets',
     'target'),
    (('_rules', 'deps'), ('dependency',), 'rule prerequisites',
     'dependency'),
    (('_rules', 'order_only'), ('dependency',), 'order-only prerequisites',
     'dependency'),
    (('_rules', 'recipe'), ('shell',), 'recipe lines', 'shell'),
    (('_defines',), ('shell',), 'define bodies', 'shell'),
    (('_rules', 'variables'), ('shell', 'clean'), 'rule variables', 'shell'),
    (('_target_variables',), ('shell', 'clean'), 'target variables',
     'shell'),
    (('_global_variables',), ('shell', 'clean'), 'global variables', 'shell'),
    (('_includes',), ('target',), 'include operands', 'target'),
]
DEPFILE_ROLES = [
    (('seen_dirs',), ('target', 'dependency'), 'depfile directories',
     'dependency'),
    (('output',), ('target',), 'depfile target', 'target'),
]
NINJA_ROLES = [
    (('_builds', 'outputs'), ('output',), 'build outputs', 'output'),
    (('_builds', 'inputs'), ('input',), 'build inputs', 'input'),
    (('_builds', 'implicit'), ('input',), 'implicit inputs', 'input'),
    (('_builds', 'order_only'), ('input',), 'order-only inputs', 'input'),
    (('_defaults',), ('input',), 'default targets', 'input'),
    (('_builds', 'variables'), ('shell', 'clean'), 'build variables',
     'shell'),
    (('_rules', 'command'), ('shell',), 'rule command', 'shell'),
    (('_rules', 'depfile'), ('shell', 'clean'), 'rule depfile', None),
    (('_rules', 'description'), ('shell', 'clean'), 'rule description',
     None),
    (('_variables',), ('shell', 'clean'), 'global variables', 'shell'),
]


def phony_targets_as_prereqs(ctx, rule_id, sites):
    """The only place rule targets may be written with Syntax.dependency is
    the `.PHONY:` line (right of a colon), i.e. under the rule's phony
    flag."""
    for s in sites:
        if has(s.data, '_rules', 'targets') and s.members == {'dependency'}:
            ctx.ob(rule_id, 'make|rule targets|dependency-only-when-phony',
                   has(s.eff.control(), 'phony'), s.eff.call,
                   'rule targets are written with Syntax.dependency outside '
                   'the .PHONY line')


# ---------------------------------------------------------------------------
def _type_leaves(F, node, fn):
    """isinstance(<x>, T) leaves known when node executes:
    [(type atoms, truth)]."""
    out = []
    for t, pos, f_, b_ in F.guard_leaves(node, fn):
        if isinstance(t, ast.Call) and isinstance(
                t.func, ast.Name) and t.func.id == 'isinstance' and \
                len(t.args) == 2:
            out.append((F.atoms(t.args[1], f_, b_), pos))
    return out


def _under_type(F, node, fn, *names):
    for ta, pos in _type_leaves(F, node, fn):
        if pos and any(components(a)[-1] in names for a in ta
                       if not a.startswith('const:')):
            return True
    return False


def _e_under_type(F, e, *names):
    """Like _under_type, along the whole call path of an effect (the type
    test may be in the caller of a helper)."""
    return any(_under_type(F, node, fn, *names) for fn, node in e.path)


def _cls_effects(F, W, pred):
    return [e for e in F.effects(W, pred, depth=1)
            if e.fn.cls is W.cls]


def _unpacked_from_quoter(F, fn, name):
    """Every definition of the local is a tuple-unpacking of a call of a
    parameter of fn (the quoting callable handed to the writer)."""
    ds = []
    for n in walk_no_nested(fn.node):
        if isinstance(n, ast.Assign):
            for t in n.targets:
                if isinstance(t, ast.Tuple) and any(
                        isinstance(x, ast.Name) and x.id == name.id
                        for x in t.elts):
                    ds.append(n.value)
                elif isinstance(t, ast.Name) and t.id == name.id:
                    ds.append(None)
    return bool(ds) and all(
        isinstance(v, ast.Call) and isinstance(v.func, ast.Name) and
        v.func.id in Q.params(fn.node) for v in ds)


def write_flow(ctx, syn_mod, shelly_members, has_escape=True,
               rule_id='WRITE-FLOW'):
    repo = ctx.repo
    F = _facts(ctx)
    R = rule_id
    ctx.rule(R, 'in Writer.write: only guarded literal text, escape_str '
             'results or nested-writer output reach the stream; shell '
             'quoting is applied (exactly for the shell contexts) before '
             'build-file escaping; paths are realised and quoted as one '
             'unit; fragments of a jbos inherit syntax and quoter')
    W = F.fn(syn_mod + ':Writer.write')
    short = syn_mod.split('.')[-2] + '.Writer.write' if syn_mod != PC_SYN \
        else 'pc.Writer.write'
    cls = W.cls
    members = enum_members(repo, syn_mod, 'Syntax')
    wl = F.fn(syn_mod + ':Writer.write_literal')
    # (0) the stream is written by write_literal only
    for n in ast.walk(cls.node):
        if isinstance(n, ast.Call) and isinstance(n.func, ast.Attribute) and \
                n.func.attr == 'write' and isinstance(
                    n.func.value, ast.Attribute) and \
                n.func.value.attr == 'stream':
            owner = repo.enclosing_func(n)
            ctx.ob(R, short + '|stream.write-owner', owner is not None and (
                owner is wl or F.only_called_from(owner, {wl.fq})), n,
                'self.stream.write called outside write_literal')
    if 'quote' in cls.methods:
        qm = cls.methods['quote']._func
        effs = F.effects(qm, lambda e: True, depth=0)
        ok = has_call(F.returns(qm), 'quote') and not any(
            e.name in ('escape_str', 'write', 'write_literal')
            for e in effs)
        ctx.ob(R, short + '|quote-is-plain-sh-quote', ok, qm.node,
               'Writer.quote does more than sh-quote its argument: text '
               'that was already escaped for the build file would be '
               'escaped twice')
    lits = _cls_effects(F, W, lambda e: e.name == 'write_literal')
    ctx.ob(R, short + '|writes-found', len(lits) >= 3, W.node,
           'only {} write_literal calls found in Writer.write'.format(
               len(lits)))
    esc_calls = []
    for e in lits:
        a = e.call.args[0] if e.call.args else None

        def expand(v, d=0):
            """The expressions the written value can be: through locals
            (reaching definitions) and both arms of conditionals."""
            if d > 4:
                return [v]
            if isinstance(v, ast.IfExp):
                return expand(v.body, d + 1) + expand(v.orelse, d + 1)
            if isinstance(v, ast.Name):
                ds = [x for x in F.reaching_defs(e.fn, v) if x is not None]
                if ds:
                    out_ = []
                    for x in ds:
                        out_ += expand(x, d + 1) if isinstance(
                            x, ast.IfExp) else [x]
                    return out_
            return [v]
        vals = expand(a)
        kinds = set()
        for v in vals:
            if isinstance(v, ast.Call) and Q.callee_attr(v) == 'escape_str':
                kinds.add('escaped')
                esc_calls.append((v, e))
            elif isinstance(v, ast.Call) and (
                    Q.callee_attr(v) in ('getvalue', 'wrap_quotes') or
                    has(F.atoms(v, e.fn), 'getvalue()')):
                kinds.add('nested')
            elif isinstance(v, ast.Attribute) and v.attr == 'string':
                kinds.add('raw-string')
            elif isinstance(v, ast.Call) and Q.callee_attr(v) in (
                    'safe_str', 'realize'):
                kinds.add('raw-thing')
            elif isinstance(v, ast.Name) and v.id in Q.params(e.fn.node):
                kinds.add('raw-thing')
            elif isinstance(v, ast.Name) and _unpacked_from_quoter(
                    F, e.fn, v):
                # text, flag = shell_quote(thing): the (possibly quoted)
                # fragment itself
                kinds.add('raw-thing')
            else:
                kinds.add('other:' + unparse(v)[:40])
        for k in sorted(kinds):
            if k == 'raw-string':
                ok = _e_under_type(F, e, 'literal') or (
                    not has_escape and _e_under_type(F, e,
                                                   'literal_types'))
                ctx.ob(R, short + '|raw-literal-guard', ok, e.call,
                       '`.string` of a fragment is written without escaping '
                       'outside the isinstance(.., literal) branch')
            elif k in ('escaped', 'nested'):
                ctx.ob(R, short + '|' + k, True, e.call, '')
            elif k == 'raw-thing' and not has_escape:
                ctx.ob(R, short + '|raw-thing', True, e.call, '')
            else:
                ctx.ob(R, short + '|unescaped-origin|' + k, False, e.call,
                       'value written to the stream is neither literal text, '
                       'an escape_str result nor nested-writer output')
    # (1)+(4) strings: shell-quoted when shelly, then escaped
    # calls of the quoting callable handed to write() (its `shell_quote`
    # parameter, under whatever name a helper receives it)
    sq = _cls_effects(F, W, lambda e: isinstance(e.call.func, ast.Name) and
                      e.call.func.id in Q.params(e.fn.node) and param_of(
                          F.atoms(e.call.func, e.fn, e.bind), 'shell_quote'))
    # the "shell context" predicate: the comparison of the syntax parameter
    # with Syntax members in Writer.write
    got = None
    preds = []
    for g, b in F.frames(W, 1):
        if g.cls is not W.cls:
            continue
        for n in ast.walk(g.node):
            if isinstance(n, ast.Compare) and isinstance(
                    n.left, ast.Name) and param_of(
                        F.atoms(n.left, g, b), 'syntax') and has(
                    F.atoms(n.comparators[0], g, b), 'Syntax'):
                preds.append((n, n.left.id))
    for t, pname in preds[:1]:
        g_ = set()
        for m in members:
            v = fold_test(repo, W.module, t, cls, {
                pname: EnumMember(syn_mod + ':Syntax', m)})
            if v is None:
                g_ = None
                break
            if v:
                g_.add(m)
        got = g_
    ctx.ob(R, short + '|shelly-set', got is not None and got == set(
        shelly_members), W.node,
        'shell quoting is applied for syntaxes {} but the shell contexts '
        'are {}'.format(sorted(got) if got is not None else '?',
                        sorted(shelly_members)))
    ok = bool(sq) and all(_e_under_type(F, e, 'str') and param_of(
        e.control(), 'shell_quote') and has(e.control(), 'Syntax')
        for e in sq)
    ctx.ob(R, short + '|str-quoted-when-shelly', ok, W.node,
           'plain strings are not passed through shell_quote when the '
           'syntax is a shell context')
    if has_escape:
        str_esc = [(v, e) for v, e in esc_calls
                   if _e_under_type(F, e, 'str')]
        ok = bool(str_esc)
        order = bool(str_esc)
        for v, e in str_esc:
            a0 = v.args[0] if v.args else None
            ok = ok and len(v.args) >= 2 and param_of(
                F.atoms(v.args[1], e.fn), 'syntax')
            if isinstance(a0, ast.Name):
                rd = F.reaching_defs(e.fn, a0, with_stmt=True)
                from_q = [st for st, val in rd if any(
                    isinstance(c, ast.Call) and isinstance(
                        c.func, ast.Name) and
                    c.func.id in Q.params(e.fn.node)
                    for c in ast.walk(st))]
                order = order and bool(from_q)
            else:
                order = False
        ctx.ob(R, short + '|str-escaped-after-quote', ok, W.node,
               'the (quoted) string is not passed through '
               'escape_str(thing, syntax) before it is written')
        ctx.ob(R, short + '|str-quote-before-escape', order, W.node,
               'escape_str is not applied to the result of shell quoting')
        sl = [(v, e) for v, e in esc_calls
              if _e_under_type(F, e, 'shell_literal')]
        ok = bool(sl) and all(has(F.atoms(v.args[0], e.fn), 'string') and
                              param_of(F.atoms(v.args[1], e.fn), 'syntax')
                              for v, e in sl if len(v.args) >= 2)
        ctx.ob(R, short + '|shell_literal-escaped', ok, W.node,
               'shell_literal is not passed through escape_str(.., syntax)')
    else:
        ok = any(_e_under_type(F, e, 'str') for e in lits)
        ctx.ob(R, short + '|str-written-after-quote', ok, W.node,
               'the quoted string is not what is written')
    # (5) jbos
    rec = [e for e in _cls_effects(F, W, lambda e: e.name == 'write')
           if param_of(e.recv(), 'self') and _e_under_type(F, e, 'jbos')]
    def accumulated(c):
        p = getattr(c, '_parent', None)
        while isinstance(p, (ast.ListComp, ast.GeneratorExp,
                             ast.comprehension)):
            p = getattr(p, '_parent', None)
        if isinstance(p, ast.Call) and Q.callee_attr(p) == 'reduce' and \
                p.args and unparse(p.args[0]).endswith('or_'):
            return True
        return isinstance(p, ast.AugAssign) and isinstance(
            p.op, ast.BitOr) or isinstance(p, ast.BinOp) and isinstance(
                p.op, ast.BitOr) or isinstance(p, ast.BoolOp) and isinstance(
                    p.op, ast.Or) or (isinstance(p, ast.Call) and
                                      Q.callee_attr(p) in ('any', 'append'))
    ok = bool(rec) and all(
        has(e.arg(0), 'bits') and param_of(e.arg(1), 'syntax') and
        param_of(e.arg(2, kw='shell_quote'), 'shell_quote') and
        accumulated(e.call) for e in rec)
    ctx.ob(R, short + '|jbos-recursion', ok, W.node,
           'jbos bits are not each written with self.write(bit, syntax, '
           'shell_quote)')
    # (6) paths
    rz = _cls_effects(F, W, lambda e: e.name == 'realize')
    ok = bool(rz) and all(_e_under_type(F, e, 'BasePath') and has(
        e.arg(1, kw='executable'), 'Syntax') for e in rz)
    ctx.ob(R, short + '|path-realize-shelly', ok, W.node,
           'path is not realised with executable=shelly')
    nested = [e for e in _cls_effects(F, W, lambda e: e.name == 'write')
              if has_call(e.recv(), 'Writer') and _e_under_type(
                  F, e, 'BasePath')]
    ok = bool(nested) and all(
        param_of(e.arg(1), 'syntax') and has(
            e.arg(2, kw='shell_quote'), 'inner_quote_info')
        for e in nested)
    ctx.ob(R, short + '|path-inner-quote', ok, W.node,
           'realised path is not written through a nested writer with '
           'inner_quote_info (quote body without surrounding quotes)')
    wq = [e for e in _cls_effects(F, W, lambda e: e.name == 'wrap_quotes')
          if _e_under_type(F, e, 'BasePath')]
    ok = bool(wq) and all(
        has(e.control(), 'Syntax') and has_call(e.control(), 'write') and
        has(e.arg(0), 'getvalue()') for e in wq)
    ctx.ob(R, short + '|path-wrapped-as-unit', ok, W.node,
           'realised path (root variable + suffix) is not wrapped in one '
           'pair of quotes when it needed quoting')
    # (8) unknown types raise
    ok = False
    for n in walk_no_nested(W.node):
        if isinstance(n, ast.Raise):
            neg = [1 for ta, pos in _type_leaves(F, n, W) if not pos]
            if len(neg) >= 4:
                ok = True
    ctx.ob(R, short + '|else-raises', ok, W.node,
           'unknown fragment types are not rejected')
    # (9) default quoter
    d = Q.param_default(W.node, 'shell_quote')
    da = F.atoms(d, W) if d is not None else set()
    if d is not None and unparse(d).endswith('default_sentinel'):
        da = set()
        for v in Q.local_assignments(W.node, 'shell_quote'):
            if v is not None:
                da |= F.atoms(v, W)
    ok = any(components(a)[-1].startswith('quote_info') for a in direct(da)
             if not a.startswith('const:')) and not has(
        direct(da), 'inner_quote_info')
    ctx.ob(R, short + '|default-quoter', ok, W.node,
           'default shell_quote is not the full quoter quote_info')
    # (10) write_each / write_shell pass syntax through
    for meth in ('write_each', 'write_shell'):
        if meth not in cls.methods:
            continue
        mf = cls.methods[meth]._func
        cs = [e for e in F.effects(mf, lambda e: e.name in (
            'write', 'write_each'), depth=0) if param_of(e.recv(), 'self')]
        ok = bool(cs) and all(param_of(e.arg(1, kw='syntax'), 'syntax')
                              for e in cs)
        ctx.ob(R, '{}|{}-passes-syntax'.format(short, meth), ok, mf.node,
               meth + ' does not forward its syntax argument')
        if meth == 'write_each':
            d = Q.param_default(mf.node, 'delim')
            ok = d is not None and isinstance(d, ast.Call) and unparse(
                d.func).endswith('literal') and const_eval(
                    repo, mf.module, d.args[0]) == ' '
            ctx.ob(R, short + '|write_each-delim', ok, mf.node,
                   'default delimiter is not the literal single space')
            # every element is written: an empty string is an argument too
            # ('' in a command line), nothing is filtered out on the way
            ws = [e for e in cs if e.name == 'write']
            tw = [e for e in ws if param_of(e.arg(0), 'things')]
            ok = bool(tw) and not any(has_call(e.arg(0), 'if') for e in tw)
            ctx.ob(R, short + '|write_each-writes-every-element', ok,
                   mf.node, 'write_each drops some of the things it is '
                   'given (an empty-string argument disappears and the '
                   'following arguments shift)')


# ---------------------------------------------------------------------------
def sh_safe(ctx, include_make_recipe=False, rule_id='SH-SAFE'):
    repo = ctx.repo
    F = _facts(ctx)
    R = rule_id
    ctx.rule(R, 'characters that posix.inner_quote_info leaves unquoted are '
             'not special to sh (word / command-word position' +
             (' / first position of a Make recipe' if include_make_recipe
              else '') + '); the quote replacement lexes back to a quote; '
             'raw shell tokens inserted by env/join helpers are constants')
    m = repo.module(POSIX)
    f = F.fn(POSIX + ':inner_quote_info')
    tests = []
    for e in F.effects(f, lambda e: e.name in ('search', 'match',
                                               'fullmatch'), depth=1):
        recv = e.call.func.value if isinstance(
            e.call.func, ast.Attribute) else None
        rc = const_eval(repo, e.fn.module, recv) if recv is not None else \
            UNKNOWN
        if isinstance(rc, RegexConst):
            tests.append((rc.pattern, e))
        elif isinstance(recv, ast.Name) and recv.id in ('re', '_re') and \
                e.call.args:
            p = const_eval(repo, e.fn.module, e.call.args[0])
            if isinstance(p, str):
                tests.append((p, e))
    Q.require(len(tests) == 1, 'inner_quote_info: expected one regex test '
              'deciding whether to quote')
    pat, te = tests[0]
    Q.require(te.name in ('search', 'fullmatch'), 'inner_quote_info: quoting '
              'test is neither a search for a bad character nor a full '
              'match of a safe word')
    cre = re.compile(pat)
    # characters that trigger quoting wherever they occur in the word:
    # `BAD.search(s)` selects quoting, `SAFE.fullmatch(s)` selects no quoting
    if te.name == 'search':
        def needs(w):
            return cre.search(w) is not None
    else:
        def needs(w):
            return cre.fullmatch(w) is None
    bad = {c for c in rx.SIGMA if needs('ab' + c + 'cd') and
           needs(c + 'cd') and needs('ab' + c)}
    ctx.stat('sh_unquoted_chars', ''.join(sorted(
        c for c in rx.SIGMA if c not in bad)))
    # the test selects the quoting branch: the quoting return (flag True,
    # text with replaced quotes) is controlled by it
    # the quote replacement: s.replace("'", X) or X.join(s.split("'"))
    reps = []
    for e in F.effects(f, lambda e: e.name in ('replace', 'join'), depth=1):
        if e.name == 'replace' and has_const(e.arg(0), "'") and len(
                e.call.args) == 2:
            reps.append((e, e.call.args[1]))
        elif e.name == 'join' and len(e.call.args) == 1 and isinstance(
                e.call.func, ast.Attribute):
            a = e.call.args[0]
            if isinstance(a, ast.Call) and Q.callee_attr(a) == 'split' and \
                    len(a.args) == 1 and const_eval(
                        repo, e.fn.module, a.args[0]) == "'":
                reps.append((e, e.call.func.value))
    want = te.name == 'search'

    def leaf_pols(n_, f_):
        out = []
        for t, pos in F.guard_truths(n_, f_):
            if t is te.call:
                out.append(pos)
            elif isinstance(t, ast.Compare) and len(t.ops) == 1 and \
                    t.left is te.call and isinstance(
                        t.comparators[0], ast.Constant) and \
                    t.comparators[0].value is None:
                # m = RE.search(s); `... is None` / `... is not None`
                if isinstance(t.ops[0], (ast.Is, ast.Eq)):
                    out.append(not pos)
                elif isinstance(t.ops[0], (ast.IsNot, ast.NotEq)):
                    out.append(pos)
        return out

    def selected(e):
        # the quoting branch is not the branch where the search for bad
        # characters failed / the full match of safe ones succeeded ...
        direct_leaf = False
        for f_, n_ in e.path:
            ps = leaf_pols(n_, f_)
            direct_leaf = direct_leaf or bool(ps)
            if (not want) in ps:
                return False
        # ... and every "needs no quotes" result of the string branch is
        return_sites = []
        for g, b in F.frames(f, 1):
            if g.module is not f.module:
                continue
            for r in Q.returns(g.node):
                if r.value is not None and has_const(
                        F.atoms(r.value, g, b), False) and not has_const(
                            F.atoms(r.value, g, b), True) and not \
                        _under_type(F, r, g, 'shell_literal'):
                    return_sites.append((r, g))
        tested = [(r, g) for r, g in return_sites if leaf_pols(r, g)]
        if not direct_leaf and not tested:
            # the test goes through a flag variable: control dependence
            return has_call(e.control(), te.name)
        return all((not want) in leaf_pols(r, g) for r, g in tested)
    ok = bool(reps) and all(selected(e) for e, _ in reps)
    ctx.ob(R, 'inner_quote_info|bad-char-test-selects-quoting', ok,
           te.call, 'the bad-character test does not select the quoting '
           'branch')
    for ch, why in sorted(T.SH_WORD.items()):
        ctx.ob(R, 'posix._bad_chars|word|{!r}'.format(ch), ch in bad,
               te.call, '{!r} ({}) is left unquoted by the sh quoter'
               .format(ch, why))
    for ch, why in sorted(T.SH_CMDWORD_EXTRA.items()):
        ctx.ob(R, 'posix._bad_chars|command-word|{!r}'.format(ch), ch in bad,
               te.call, '{!r} is left unquoted: {}'.format(ch, why))
    if include_make_recipe:
        for ch, why in sorted(T.MK_RECIPE_FIRST.items()):
            ctx.ob(R, 'posix._bad_chars|make-recipe-first|{!r}'.format(ch),
                   ch in bad, te.call,
                   '{!r} is left unquoted and can start a recipe line: {}'
                   .format(ch, why))
    ok = False
    detail = 'no s.replace("\'", ..) in the quoting branch'
    for e, new_e in reps:
        if True:
            new = const_eval(repo, e.fn.module, new_e)
            if isinstance(new, str):
                lexed = T.sh_single_quote_lex("'a" + new + "b'")
                ok = lexed == "a'b"
                detail = ('the replacement {!r} for a single quote, placed '
                          'inside single quotes, lexes to {!r} instead of a '
                          'quote'.format(new, lexed))
    ctx.ob(R, 'inner_quote_info|quote-replacement', ok, f.node, detail)
    ok = False
    for n in F.consts(f, lambda v: v is True):
        if any(op == 'Eq' and (has_const(l, '') or has_const(rr, ''))
               for op, l, rr in F.guard_compares(n, f)):
            ok = has_const(F.returns(f), True)
    if not ok:
        # the same fact from the other side: no "needs no quotes" result
        # (flag False) can be returned for the empty string -- every such
        # return of the string branch is reached only when s != ''
        falses = []
        for g, b in F.frames(f, 1):
            if g.module is not f.module:
                continue
            for r in Q.returns(g.node):
                if r.value is not None and has_const(
                        F.atoms(r.value, g, b), False) and not has_const(
                            F.atoms(r.value, g, b), True) and not \
                        _under_type(F, r, g, 'shell_literal'):
                    falses.append((r, g, b))
        sparam = Q.params(f.node)[0]

        def nonempty(r, g, b):
            if any(op == 'NotEq' and (has_const(l, '') or has_const(rr, ''))
                   for op, l, rr in F.guard_compares(r, g, b)):
                return True
            # `if s and ...`: the string itself tested for truth
            return g is f and any(
                pos and isinstance(t, ast.Name) and t.id == sparam
                for t, pos in F.guard_truths(r, g))
        ok = bool(falses) and has_const(F.returns(f), True) and all(
            nonempty(r, g, b) for r, g, b in falses)
    if not ok and te.name == 'fullmatch' and needs('') and reps and all(
            selected(e) for e, _ in reps):
        # the empty word is not a safe word: it takes the quoting branch
        ok = has_const(F.returns(f), True)
    ctx.ob(R, 'inner_quote_info|empty-string-quoted', ok, f.node,
           "the empty string is not reported as needing quotes ('')")
    ok = False
    for r in Q.returns(f.node):
        if r.value is not None and _under_type(F, r, f, 'shell_literal'):
            a = F.atoms(r.value, f)
            ok = has(a, 'string') and has_const(a, False) and not \
                has_const(a, True)
    ctx.ob(R, 'inner_quote_info|shell_literal-passthrough', ok, f.node,
           'shell_literal handling changed')
    qf = F.fn(POSIX + ':quote_info')
    wq = F.calls_to(qf, 'wrap_quotes', depth=0)
    iq = F.calls_to(qf, 'inner_quote_info', depth=0)
    ok = bool(wq) and bool(iq) and all(
        has_call(e.control() | e.arg_tests(), 'inner_quote_info') or any(
            has_call(F.atoms(t, qf), 'inner_quote_info')
            for n in ast.walk(qf.node) if isinstance(n, ast.IfExp)
            for t in [n.test]) for e in wq) and has_call(
        F.returns(qf), 'wrap_quotes')
    ctx.ob(R, 'quote_info|wrap-when-quoted', ok, qf.node,
           'quote_info does not wrap exactly when inner_quote_info reported '
           'quoting')
    ctx.ob(R, 'quote_info|uses-inner_quote_info', bool(iq), qf.node,
           'quote_info does not delegate to inner_quote_info')
    wf = F.fn(POSIX + ':wrap_quotes')
    r = F.returns(wf)
    ok = has_const(r, "'") and param_of(r, Q.params(wf.node)[0])
    ctx.ob(R, 'wrap_quotes|plain-wrap', ok, wf.node,
           'wrap_quotes does not wrap its argument in single quotes')
    for fname, allowed in (('local_env', {'='}), ('global_env', {'='}),
                           ('join_lines', {'&&'})):
        ff = F.fn(POSIX + ':' + fname)
        for e in F.effects(ff, lambda e: e.name in ('shell_literal',
                                                    'literal'), depth=0):
            v = const_eval(repo, e.fn.module, e.call.args[0]) \
                if e.call.args else UNKNOWN
            ctx.ob(R, '{}|raw-token|{!r}'.format(fname, v if isinstance(
                v, str) else 'non-constant'),
                isinstance(v, str) and v in allowed, e.call,
                'raw shell token inserted by {} (allowed: {})'.format(
                    fname, sorted(allowed)))
    for fname in ('local_env', 'global_env'):
        ff = F.fn(POSIX + ':' + fname)
        j = [e for e in F.calls_to(ff, 'jbos', depth=1)
             if any(has_const(e.arg(i), '=') for i in range(
                 len(e.call.args)))]
        ok = bool(j) and all(
            len(e.call.args) == 3 and has_call(e.arg(1), 'shell_literal')
            and param_of(e.arg(0), 'env') and param_of(e.arg(2), 'env')
            for e in j)
        ctx.ob(R, fname + '|assignment-is-one-word', ok, ff.node,
               'NAME=value is not built as one word (jbos of name, raw =, '
               'value)')
    ff = F.fn(POSIX + ':global_env')
    strs = [n.value for g in F.reach(ff, 0) for n in ast.walk(g.node)
            if isinstance(n, ast.Constant) and isinstance(n.value, str)]
    ctx.ob(R, 'global_env|export-keyword', 'export' in strs, ff.node,
           'global_env does not emit `export`')


# ---------------------------------------------------------------------------
# text exempt from escaping: write_literal(...) outside Writer, literal(...)
SAFE_TABLES = ('_global_variables', '_target_variables', '_defines',
               '_variables', 'variables', '_rules')


def _pure_constant(v, _d=0):
    if _d > 4:
        return False
    if v is None or isinstance(v, (str, int, bool, float)):
        return True
    if isinstance(v, (tuple, list, frozenset)):
        return all(_pure_constant(x, _d + 1) for x in v)
    if isinstance(v, dict):
        return all(_pure_constant(k, _d + 1) and _pure_constant(x, _d + 1)
                   for k, x in v.items())
    return isinstance(v, EnumMember)


def _constant_table(F, cs, fn):
    """The access path names a module-level or class-level table that folds
    to constants only (text taken from it is repository text, not script
    data)."""
    if not cs:
        return False
    try:
        if cs[0] in ('self', 'cls') and len(cs) >= 2:
            ci = fn.cls or F.repo.enclosing_class(fn.node)
            if ci is None:
                return False
            owner, v = ci.find_attr(cs[1].split('[')[0])
            if v is None:
                return False
            return _pure_constant(const_eval(F.repo, owner.module, v, owner))
        r = F.repo.resolve_symbol(fn.module.name, cs[0].split('[')[0])
        if r is not None and r[0] == 'value' and r[3] is not None:
            return _pure_constant(const_eval(F.repo, r[1], r[3]))
    except Exception:
        return False
    return False


def _param_safe_at_callers(F, fn, pname, _d):
    """`pname` is a parameter of a private helper and every call site in the
    package passes safe text for it."""
    name = fn.node.name
    if _d > 2 or not name.startswith('_') or (
            name.startswith('__') and name.endswith('__')):
        return False
    ps = Q.params(fn.node)
    if pname not in ps:
        return False
    callers = Q.find_callers(F.repo, fn, by_name_ok=False)
    if not callers:
        return False
    for m, c, exact in callers:
        cf = F.repo.enclosing_func(c)
        if cf is None:
            return False
        k = ps.index(pname)
        if ps and ps[0] in ('self', 'cls') and isinstance(
                c.func, ast.Attribute):
            k -= 1
        arg = Q.kwarg(c, pname)
        if arg is None and 0 <= k < len(c.args) and not any(
                isinstance(x, ast.Starred) for x in c.args[:k + 1]):
            arg = c.args[k]
        if arg is None:
            d = Q.param_default(fn.node, pname)
            if d is None or not isinstance(d, ast.Constant):
                return False
            continue
        at = F.flow.atoms(arg, cf, None, F.flow.max_depth)
        if _safe_text_atoms(F, at, cf, _d + 1):
            return False
    return True


def _safe_text_atoms(F, atoms, fn, _d=0):
    """Every direct access path that flows into the text is a constant, the
    sanitised `.name` of a backend Variable / rule table entry / enum
    member, an indentation count, or output of a writer."""
    bad = []
    for a in atoms:
        if a.startswith('via:'):
            a = a[4:]
        if a.startswith(('const:', 'key:', 'alloc:')):
            continue
        cs = components(a)
        if a.startswith('param:') and len(cs) == 1 and \
                _param_safe_at_callers(F, fn, a[6:], _d):
            continue
        if len(cs) == 1 and not a.startswith('param:'):
            try:
                r = F.repo.resolve_symbol(fn.module.name, cs[0])
            except Exception:
                r = None
            if r is not None and r[0] in ('module', 'class', 'func'):
                continue
        if _constant_table(F, cs, fn):
            continue
        last = cs[-1] if cs else ''
        if last == 'name' and len(cs) >= 2 and (
                any(t in cs for t in SAFE_TABLES) or
                               cs[0] in ('self', 'name', 'var', 'i',
                                         'variable') or
                               'InstallRoot' in a or 'Section' in a or
                               'Root' in a):
            continue
        if last in ('indent', 'mul2()') or a in ('param:indent',):
            continue
        if 'getvalue()' in a or 'wrap_quotes(' in a or '.quote(' in a:
            continue
        if last.startswith(('var(', 'Variable(', 'qvar(')) and \
                len(cs) >= 1:
            continue
        if last.startswith(('format(', 'join(', 'str(')):
            continue
        bad.append(a)
    return bad


def lit_sites(ctx, modules, rule_id='LIT-SITES', minimum=6):
    repo = ctx.repo
    F = _facts(ctx)
    R = rule_id
    ctx.rule(R, 'every write_literal call outside class Writer passes only '
             'string constants, sanitised identifiers (.name of variables / '
             'rule table keys / enum members) and indentation (one allow-'
             'listed header comment)')
    n = 0
    for mn in modules:
        m = repo.module(mn)
        for c in ast.walk(m.tree):
            if not (isinstance(c, ast.Call) and isinstance(
                    c.func, ast.Attribute) and
                    c.func.attr == 'write_literal' and c.args):
                continue
            fn = repo.enclosing_func(c)
            if fn is None or (fn.cls is not None and
                              fn.cls.name == 'Writer'):
                continue
            n += 1
            a = F.flow.atoms(c.args[0], fn, None, F.flow.max_depth)
            if has(a, '_bfgfile') or has(a, '_comment_tmpl'):
                ctx.ob(R, fn.module.name.split('.')[-2] +
                       '|header-comment', True, c,
                       'allow-listed: header comment with the build.bfg '
                       'path (a line break is excluded by the property)')
                continue
            bad = _safe_text_atoms(F, a, fn)
            # ninja rule names: validated by the \\W guard in NinjaFile.rule
            if bad and all(('rule' in b or b in ('param:name', 'name'))
                           for b in bad) and 'ninja' in mn:
                ctx.ob(R, 'ninja|rule-name', _ninja_rule_name_guard(ctx, F),
                       c, 'ninja rule name is not validated before use')
                continue
            ctx.ob(R, '{}|{}'.format(
                fn.fq, ','.join(sorted(bad)[:3]) or 'constants+names'),
                not bad, c, 'write_literal writes script-derived text '
                'without escaping: {}'.format(sorted(bad)[:4]))
    ctx.ob(R, 'sites|found', n >= minimum, None,
           'only {} write_literal sites found'.format(n))


def _ninja_rule_name_guard(ctx, F):
    repo = ctx.repo
    f = F.fn(NINJA_SYN + ':NinjaFile.rule')
    ok = False
    for n in walk_no_nested(f.node):
        if isinstance(n, ast.Raise):
            for t, pos, f_, b_ in F.guard_leaves(n, f):
                for c in ast.walk(t):
                    if isinstance(c, ast.Call) and Q.callee_attr(c) in (
                            'search', 'match') and c.args:
                        pat = const_eval(repo, f.module, c.args[0])
                        if isinstance(pat, str):
                            try:
                                cre = re.compile(pat)
                                ok = all(cre.search('a' + ch + 'b')
                                         for ch in ' $:\t|#=')
                            except re.error:
                                ok = False
    b = F.fn(NINJA_SYN + ':NinjaFile.build')
    ok2 = any(any(isinstance(t, ast.Call) and Q.callee_attr(t) == 'has_rule'
                  for t, pos, f_, b_ in F.guard_leaves(n, b)
                  for t in ast.walk(t))
              for n in walk_no_nested(b.node) if isinstance(n, ast.Raise))
    return ok and ok2


def literal_origin(ctx, modules=None, rule_id='LITERAL-ORIGIN'):
    from .escape import _check_sanitisers, _resolve_literal_ctor
    repo = ctx.repo
    F = _facts(ctx)
    R = rule_id
    ctx.rule(R, 'every safe_str.literal / shell_literal (text exempt from '
             'escaping) is constructed from constants, sanitised identifiers '
             'or already-escaped writer output')
    n = 0
    for m in sorted(repo.modules.values(), key=lambda x: x.name):
        if modules is not None and m.name not in modules:
            continue
        if m.name.startswith('bfg9000.backends.msbuild') or \
                m.name.startswith('bfg9000.tools.msvc'):
            continue
        for c in ast.walk(m.tree):
            if not isinstance(c, ast.Call):
                continue
            fn = repo.enclosing_func(c)
            kind = _resolve_literal_ctor(repo, m, fn, c)
            if kind is None or not c.args:
                continue
            n += 1
            if fn is not None and fn.fq in LITERAL_ALLOW or (
                    fn is not None and any(
                        F.only_called_from(fn, {k}) for k in LITERAL_ALLOW)):
                ctx.ob(R, (fn.fq if fn.fq in LITERAL_ALLOW else
                           'helper-of-allow-listed') + '|' + kind, True, c,
                       'allow-listed')
                continue
            if fn is None:
                v = const_eval(repo, m, c.args[0])
                ctx.ob(R, m.name + '|' + kind, isinstance(v, str), c,
                       'module-level literal is not constant')
                continue
            a = F.flow.atoms(c.args[0], fn, None, F.flow.max_depth)
            bad = _safe_text_atoms(F, a, fn)
            ok = not bad
            if bad and (has(a, 'getvalue()') or any(
                    'getvalue()' in x for x in a)):
                ok = _collapsed_quoted(ctx, R, F, fn, c)
            ctx.ob(R, '{}|{}|{}'.format(fn.fq, kind, ','.join(
                sorted(bad)[:2]) or 'constants+names'), ok, c,
                '{}(...) exempts script-derived text from escaping: {}'
                .format(kind, sorted(bad)[:4]))
    ctx.ob(R, 'constructions|found', n >= 12, None,
           'only {} literal constructions found'.format(n))
    _check_sanitisers(ctx, R)


def _collapsed_quoted(ctx, R, F, fn, call):
    """tests._build_commands: the collapsed child command line is the output
    of a Writer; when it has more than one word it must be quoted with
    <writer>.quote before being embedded as a literal."""
    outer = fn
    qs = [e for e in F.effects(outer, lambda e: e.name == 'quote', depth=1)]
    ok = bool(qs) and all(has_call(e.control(), 'len') for e in qs)
    ctx.ob(R, fn.fq + '|collapsed-command-quoted', ok, call,
           'collapsed multi-word child command is not quoted with '
           '<writer>.quote before being embedded')
    ws = F.effects(outer, lambda e: e.name == 'write_shell', depth=1)
    ctx.ob(R, fn.fq + '|collapsed-command-written-by-writer', bool(ws), call,
           'child command is not rendered by the backend writer')
    return ok and bool(ws)
