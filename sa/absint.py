"""Finite-domain abstract interpretation of small decision functions.

`Interp.run(fn, env)` executes the statements of a function under an
environment that maps some names to constants (strings, numbers, enum
members); every `if` whose test folds under the environment is followed,
assignments of foldable values update the environment, calls of repository
functions are interpreted with their parameters bound to the folded
arguments (so extracting the body of a loop into a helper, or turning an
if/elif chain into early returns, does not change the result). Everything
else is recorded as an *action*:

    ('write', <constant or source text of the argument>)   x.write(arg)
    ('call', name, [args])                                    other calls
    ('raise', <exception constructor name>)
    ('set', name, value)                                      assignments

The result is (actions, outcome) with outcome ('return', value) /
('raise',) / ('fall',). A test that does not fold makes the run
*undecidable* (Undecided is raised): the caller reports an analysis
limitation rather than guessing.
"""
import ast

from .consteval import (EnumMember, FuncRef, UNKNOWN, const_eval,
                        fold_test)
from .index import unparse
from . import query as Q


class Undecided(Exception):
    pass


class Sym:
    """A value the interpretation does not know, named after the variable
    of the analysed function it comes from (`value` of the token loop)."""
    def __init__(self, name):
        self.name = name

    def __eq__(self, o):
        return isinstance(o, Sym) and o.name == self.name

    def __hash__(self):
        return hash(('Sym', self.name))

    def __repr__(self):
        return 'Sym({})'.format(self.name)


class Interp:
    def __init__(self, repo, flow, max_depth=4):
        self.repo = repo
        self.flow = flow
        self.max_depth = max_depth

    def value(self, module, expr, env):
        return const_eval(self.repo, module, expr, None, env)

    def sym_value(self, m, expr, env):
        """Like value(), with unknown names kept as symbols and tuples /
        conditional expressions evaluated piecewise."""
        v = self.value(m, expr, env)
        if v is not UNKNOWN:
            return v
        if isinstance(expr, ast.Name):
            if expr.id in env:
                return env[expr.id]
            return Sym(env.get('#sym:' + expr.id, expr.id))
        if isinstance(expr, ast.Tuple):
            return tuple(self.sym_value(m, x, env) for x in expr.elts)
        if isinstance(expr, ast.IfExp):
            t = fold_test(self.repo, m, expr.test, None, env)
            if t is not None:
                return self.sym_value(m, expr.body if t else expr.orelse,
                                      env)
        return UNKNOWN

    def run(self, fn, env, depth=0):
        acts = []
        out = self._block(fn, fn.node.body, dict(env), acts, depth)
        return acts, (out or ('fall',))

    def run_block(self, fn, body, env, depth=0):
        acts = []
        env = dict(env)
        out = self._block(fn, body, env, acts, depth)
        return acts, (out or ('fall',)), env

    def _call(self, fn, call, env, acts, depth):
        """Interpret a call of a repository function; returns its value or
        UNKNOWN."""
        callee = self.flow.resolve_call(call, fn)
        if callee is None:
            # a function selected from a dispatch table (possibly held in a
            # local: `state, action = row; action(out, value)`)
            fv = self.value(fn.module, call.func, env)
            if isinstance(fv, FuncRef):
                callee = fv.func
        if callee is None or depth >= self.max_depth:
            return UNKNOWN, False
        a_ = callee.node.args
        pos = [x.arg for x in a_.posonlyargs + a_.args]
        if pos and pos[0] in ('self', 'cls') and isinstance(
                call.func, ast.Attribute):
            pos = pos[1:]
        cenv = {}
        for i, a in enumerate(call.args):
            if isinstance(a, ast.Starred) or i >= len(pos):
                break
            v = self.sym_value(fn.module, a, env)
            if isinstance(v, Sym):
                cenv['#sym:' + pos[i]] = v.name
            elif v is not UNKNOWN:
                cenv[pos[i]] = v
            elif isinstance(a, ast.Name):
                cenv['#sym:' + pos[i]] = a.id
        for k in call.keywords:
            if k.arg:
                v = self.value(fn.module, k.value, env)
                if v is not UNKNOWN:
                    cenv[k.arg] = v
        sub = []
        out = self._block(callee, callee.node.body, cenv, sub, depth + 1)
        # rename the callee's symbolic parameter names in recorded actions
        ren = {k[5:]: v for k, v in cenv.items() if k.startswith('#sym:')}
        for a in sub:
            if a[0] == 'write' and isinstance(a[1], str) and a[1] in ren:
                a = ('write', ren[a[1]])
            acts.append(a)
        if out is None:
            return None, True
        if out[0] == 'raise':
            raise _Raised()
        return out[1], True

    def _block(self, fn, body, env, acts, depth):
        m = fn.module
        for st in body:
            if isinstance(st, ast.Expr) and isinstance(
                    st.value, ast.Constant):
                continue                     # docstring
            if isinstance(st, ast.Pass):
                continue
            if isinstance(st, ast.If):
                t = fold_test(self.repo, m, st.test, None, env)
                if t is None:
                    # a test on run-time data: both arms are possible. What
                    # they do is recorded as a ('branch', test, then, else)
                    # action (not as unconditional actions); values they set
                    # differently are forgotten.
                    e1, e2, a1, a2 = dict(env), dict(env), [], []
                    o1 = self._block(fn, st.body, e1, a1, depth)
                    o2 = self._block(fn, st.orelse, e2, a2, depth)
                    if a1 == a2 and o1 == o2 and e1 == e2:
                        acts.extend(a1)
                        env.clear()
                        env.update(e1)
                    else:
                        acts.append(('branch', unparse(st.test), a1, a2))
                        for k in list(env):
                            if e1.get(k, UNKNOWN) != e2.get(k, UNKNOWN) or \
                                    k not in e1 or k not in e2:
                                env.pop(k, None)
                        if o1 is not None and o1 == o2:
                            return o1
                        if o1 is not None or o2 is not None:
                            raise Undecided(
                                'arms of `{}` leave differently'.format(
                                    unparse(st.test)))
                    continue
                out = self._block(fn, st.body if t else st.orelse, env, acts,
                                  depth)
                if out is not None:
                    return out
                continue
            if isinstance(st, ast.Return):
                if st.value is None:
                    return ('return', None)
                if isinstance(st.value, ast.Call):
                    try:
                        v, done = self._call(fn, st.value, env, acts, depth)
                    except _Raised:
                        return ('raise',)
                    if done:
                        return ('return', v)
                v = self.sym_value(m, st.value, env)
                return ('return', v)
            if isinstance(st, ast.Continue):
                return ('continue',)
            if isinstance(st, ast.Raise):
                name = ''
                if isinstance(st.exc, ast.Call):
                    name = unparse(st.exc.func)
                elif st.exc is not None:
                    name = unparse(st.exc)
                acts.append(('raise', name))
                return ('raise',)
            if isinstance(st, (ast.Assign, ast.AnnAssign)) and (
                    st.value is not None):
                tgts = st.targets if isinstance(st, ast.Assign) else [
                    st.target]
                v = UNKNOWN
                if isinstance(st.value, ast.Call):
                    try:
                        v, done = self._call(fn, st.value, env, acts, depth)
                    except _Raised:
                        return ('raise',)
                    if not done:
                        v = self.sym_value(m, st.value, env)
                else:
                    v = self.sym_value(m, st.value, env)
                for t in tgts:
                    if isinstance(t, ast.Tuple) and all(
                            isinstance(x, ast.Name) for x in t.elts):
                        if isinstance(v, (tuple, list)) and len(v) == len(
                                t.elts):
                            vs = list(v)
                        elif isinstance(st.value, ast.Tuple) and len(
                                st.value.elts) == len(t.elts):
                            vs = [self.value(m, x, env)
                                  for x in st.value.elts]
                        else:
                            vs = [UNKNOWN] * len(t.elts)
                        for x, xv in zip(t.elts, vs):
                            if xv is UNKNOWN:
                                env.pop(x.id, None)
                            else:
                                env[x.id] = xv
                            acts.append(('set', x.id, xv))
                    if isinstance(t, ast.Name):
                        if v is UNKNOWN:
                            env.pop(t.id, None)
                        else:
                            env[t.id] = v
                        acts.append(('set', t.id, v))
                continue
            if isinstance(st, ast.Expr) and isinstance(st.value, ast.Call):
                c = st.value
                if Q.callee_attr(c) == 'write' and c.args:
                    a = c.args[0]
                    v = self.sym_value(m, a, env)
                    if isinstance(v, Sym):
                        v = v.name
                    acts.append(('write', v if v is not UNKNOWN
                                 else unparse(a)))
                    continue
                try:
                    v, done = self._call(fn, c, env, acts, depth)
                except _Raised:
                    return ('raise',)
                if not done:
                    acts.append(('call', unparse(c.func),
                                 [unparse(x) for x in c.args]))
                continue
            if isinstance(st, ast.Delete):
                acts.append(('call', 'del', [unparse(x) for x in st.targets]))
                continue
            if isinstance(st, ast.AugAssign):
                if isinstance(st.target, ast.Name):
                    env.pop(st.target.id, None)
                    acts.append(('set', st.target.id, UNKNOWN))
                else:
                    acts.append(('call', 'augassign', [unparse(st.target)]))
                continue
            raise Undecided('unsupported statement ' + type(st).__name__)
        return None


class _Raised(Exception):
    pass
