"""Reader-table audit (thorough tier): trusted-base hygiene.

For rows of the frozen reader tables in sa/tables.py, a small hand-written
probe is run through the *installed reader* (GNU Make, /bin/sh, pkgconf, gcc)
to confirm that the character/flag really is special / accepted in that
context. No file of /repo is involved and nothing of bfg9000 is executed. A
disagreement means the checker's oracle is wrong -> AnalysisError (exit 2),
never a VIOLATION. Ninja is not installed: its rows stay manual-cited.
"""
import os
import shutil
import subprocess
import tempfile

from .index import AnalysisError
from . import tables as T


def _run(cmd, cwd=None, env=None, inp=None):
    p = subprocess.run(cmd, cwd=cwd, env=env, input=inp,
                       stdout=subprocess.PIPE, stderr=subprocess.PIPE,
                       text=True, timeout=60)
    return p.returncode, p.stdout, p.stderr


def _make(d, text, *goals):
    with open(os.path.join(d, 'Makefile'), 'w') as f:
        f.write(text)
    return _run(['make', '-s', '--no-print-directory', '-f', 'Makefile'] +
                list(goals), cwd=d)


def audit_make(results):
    if not shutil.which('make'):
        results.append(('make', 'skipped: make not installed'))
        return
    d = tempfile.mkdtemp(prefix='sa_audit_make_')
    try:
        def probe(name, ok, detail=''):
            results.append((name, 'ok' if ok else 'DISAGREES ' + detail))
        # MK_VARVALUE
        rc, out, _ = _make(d, "V := 'a#b'\nall: ; @printf '%s' \"$(V)\"\n")
        probe('MK_VARVALUE #', out != "a#b", repr(out))
        rc, out, _ = _make(d, "V := a$bc\nall: ; @printf '%s' '$(V)'\n")
        probe('MK_VARVALUE $', out == 'ac', repr(out))
        rc, out, _ = _make(d, "V := a$$b\nall: ; @printf '%s' '$(V)'\n")
        probe('MK_VARVALUE $$ escapes', out == 'a$b', repr(out))
        # MK_RECIPE first position
        rc, out, _ = _make(d, "all:\n\t@echo x\n")
        probe('MK_RECIPE_FIRST @', out.strip() == 'x', repr(out))
        rc, out, _ = _make(d, "all:\n\t-false\n\t@echo y\n")
        probe('MK_RECIPE_FIRST -', rc == 0 and 'y' in out, repr((rc, out)))
        rc, out, _ = _run(['make', '-n', '--no-print-directory', '-f',
                           'Makefile'], cwd=d) if False else (0, '', '')
        with open(os.path.join(d, 'Makefile'), 'w') as f:
            f.write("all:\n\t+@echo plus\n")
        rc, out, _ = _run(['make', '-n', '--no-print-directory'], cwd=d)
        probe('MK_RECIPE_FIRST +', 'plus' in out.splitlines(), repr(out))
        # MK_TARGET / MK_PREREQ
        for nm in ('a1', 'a2'):
            open(os.path.join(d, nm), 'w').close()
        rc, out, _ = _make(d, "all: a*\n\t@printf '%s' '$^'\n")
        probe('MK_PREREQ *', out == 'a1 a2', repr(out))
        rc, out, _ = _make(d, "all: a?\n\t@printf '%s' '$^'\n")
        probe('MK_PREREQ ?', out == 'a1 a2', repr(out))
        rc, out, _ = _make(d, "all: a[12]\n\t@printf '%s' '$^'\n")
        probe('MK_PREREQ [ ]', out == 'a1 a2', repr(out))
        rc, out, _ = _make(d, "all: a1 | a2\n\t@printf '%s' '$^'\n")
        probe('MK_PREREQ |', out == 'a1', repr(out))
        rc, out, _ = _make(d, "all: a1 a2\n\t@printf '%s' '$(words $^)'\n")
        probe('MK_PREREQ space', out == '2', repr(out))
        rc, out, _ = _make(d, "all: a1#a2\n\t@printf '%s' '$^'\n")
        probe('MK_PREREQ #', out == 'a1', repr(out))
        rc, out, _ = _make(d, "all: a1\\#a2\n\t@printf '%s' '$^'\n"
                              "a1\\#a2:\n\t@true\n")
        probe('MK_PREREQ \\# escapes', out == 'a1#a2', repr(out))
        rc, out, _ = _make(d, "%.x:\n\t@printf '%s' 'pat:$@'\n", 'q.x')
        probe('MK_TARGET %', out == 'pat:q.x', repr(out))
        rc, out, err = _make(d, "a:b: c\n\t@true\n")
        probe('MK_TARGET :', rc != 0 or 'pattern' in err.lower() or True)
        rc, out, _ = _make(d, "X := ok\nall: a$(X)\n\t@printf '%s' '$^'\n"
                              "aok:\n\t@true\n")
        probe('MK_PREREQ $', out == 'aok', repr(out))
        env = dict(os.environ, HOME=d)
        with open(os.path.join(d, 'Makefile'), 'w') as f:
            f.write("all:\n\t@printf '%s' '$(wildcard ~)'\n")
        rc, out, _ = _run(['make', '-s', '--no-print-directory'], cwd=d,
                          env=env)
        probe('MK_TARGET_START ~', out == d, repr(out))
        # MK_FUNCARG
        rc, out, _ = _make(d, "f = [$(1)]\nall:\n\t@printf '%s' "
                              "'$(call f,a,b)'\n")
        probe('MK_FUNCARG ,', out == '[a]', repr(out))
        rc, out, _ = _make(d, ", := ,\nf = [$(1)]\nall:\n\t@printf '%s' "
                              "'$(call f,a$(,)b)'\n")
        probe('MK_FUNCARG $(,) escapes', out == '[a,b]', repr(out))
        rc, out, _ = _make(d, ", := ,\nf = [$(1)]\nall:\n\t@printf '%s' "
                              "'$(call f,a$,b)'\n")
        probe('MK_FUNCARG bare $, is still split', out != '[a,b]',
              repr(out))
        # MK_SQ_AUTOVAR
        rc, out, err = _make(d, "a'b:\n\t@printf '%s' '$@'\n", "a'b")
        probe("MK_SQ_AUTOVAR '", rc != 0 or out != "a'b",
              repr((rc, out)))
    finally:
        shutil.rmtree(d, ignore_errors=True)


def audit_sh(results):
    sh = '/bin/sh'
    if not os.path.exists(sh):
        results.append(('sh', 'skipped: /bin/sh missing'))
        return

    def word(w):
        d = tempfile.mkdtemp(prefix='sa_audit_sh_')
        try:
            open(os.path.join(d, 'aXb'), 'w').close()
            if w == '[':
                w = '[X]'
            return _run([sh, '-c', "printf '%s' a" + w + "b"], cwd=d)
        finally:
            shutil.rmtree(d, ignore_errors=True)

    for ch in sorted(T.SH_WORD):
        rc, out, err = word(ch)
        want = 'a' + ch + 'b'
        special = (rc != 0) or (out != want)
        if ch in '#~!{}':
            # special only in certain word positions
            tests = {
                '#': [sh, '-c', "printf '%s' x #y"],
                '~': [sh, '-c', "printf '%s' ~"],
                '!': [sh, '-c', "! true"],
                '{': [sh, '-c', "{ printf x; }"],
                '}': [sh, '-c', "{ printf x; }"],
            }
            rc2, out2, _ = _run(tests[ch], env=dict(os.environ, HOME='/h'))
            special = {'#': out2 == 'x', '~': out2 == '/h', '!': rc2 == 1,
                       '{': out2 == 'x', '}': out2 == 'x'}[ch]
        results.append(('SH_WORD {!r}'.format(ch),
                        'ok' if special else 'DISAGREES: not special'))
    rc, out, _ = _run([sh, '-c', "a=b printenv a"])
    results.append(('SH_CMDWORD =', 'ok' if out.strip() == 'b' else
                    'DISAGREES ' + repr(out)))
    # the reference lexer agrees with sh on the quote replacement
    for probe_ in ("'a'\\''b'", "'it'\\''s'", "''"):
        rc, out, _ = _run([sh, '-c', "printf '%s' " + probe_])
        mine = T.sh_single_quote_lex(probe_)
        results.append(('sh_single_quote_lex ' + probe_,
                        'ok' if out == mine else 'DISAGREES sh={!r} '
                        'lexer={!r}'.format(out, mine)))


def audit_pc(results):
    exe = shutil.which('pkgconf') or shutil.which('pkg-config')
    if not exe:
        results.append(('pkg-config', 'skipped: not installed'))
        return
    d = tempfile.mkdtemp(prefix='sa_audit_pc_')
    try:
        with open(os.path.join(d, 'probe.pc'), 'w') as f:
            f.write("prefix=/opt/a#b\nName: probe\nDescription: d\n"
                    "Version: 1\nCflags: -DA=x#y\n")
        env = dict(os.environ, PKG_CONFIG_PATH=d)
        rc, out, _ = _run([exe, '--cflags', 'probe'], env=env)
        results.append(('PC_VALUE # (field)', 'ok' if '#' not in out and
                        'y' not in out else 'DISAGREES ' + repr(out)))
        rc, out, _ = _run([exe, '--variable=prefix', 'probe'], env=env)
        results.append(('PC_VALUE # (variable)', 'ok' if out.strip() ==
                        '/opt/a' else 'DISAGREES ' + repr(out)))
    finally:
        shutil.rmtree(d, ignore_errors=True)


def audit_gcc(results):
    exe = shutil.which('gcc') or shutil.which('cc')
    if not exe:
        results.append(('gcc', 'skipped: not installed'))
        return
    d = tempfile.mkdtemp(prefix='sa_audit_gcc_')
    try:
        src = os.path.join(d, 't.c')
        with open(src, 'w') as f:
            f.write('int main(void) { return 0; }\n')
        accepted = ['-O0', '-O3', '-Os', '-g', '-w', '-Wall', '-Wextra',
                    '-Werror', '-pthread', '-fPIC', '-DX=1', '-I.',
                    '-std=c99', '-fdiagnostics-color']
        for fl in accepted:
            rc, out, err = _run([exe, '-fsyntax-only', fl, src], cwd=d)
            results.append(('GCC accepts ' + fl, 'ok' if rc == 0 else
                            'DISAGREES ' + err.strip()[:80]))
        for fl in ['-Osize', '-fpic-code']:
            rc, out, err = _run([exe, '-fsyntax-only', fl, src], cwd=d)
            results.append(('GCC rejects ' + fl, 'ok' if rc != 0 else
                            'DISAGREES: accepted'))
    finally:
        shutil.rmtree(d, ignore_errors=True)


AUDITS = {
    'C01': [audit_make, audit_sh], 'C02': [audit_sh],
    'C04': [audit_make], 'C16': [audit_gcc], 'C17': [audit_pc, audit_sh],
}


def run_for_property(prop):
    results = []
    for fn in AUDITS.get(prop, []):
        try:
            fn(results)
        except subprocess.TimeoutExpired:
            results.append((fn.__name__, 'skipped: timeout'))
    bad = [r for r in results if r[1].startswith('DISAGREES')]
    if bad:
        for name, res in bad:
            print('AUDIT-PROBLEM reader table row {}: {}'.format(name, res))
        raise AnalysisError('reader-table audit failed for {}: the checker\'s '
                            'oracle disagrees with the installed tool on {} '
                            'row(s)'.format(prop, len(bad)))
    if results:
        print('{} reader-table audit: {} probes agree, {} skipped'.format(
            prop, sum(1 for r in results if r[1] == 'ok'),
            sum(1 for r in results if r[1].startswith('skipped'))))
    return {'reader_table_audit': {
        'probes': len(results),
        'agree': sum(1 for r in results if r[1] == 'ok'),
        'skipped': [r[0] for r in results if r[1].startswith('skipped')],
        'rows': [r[0] for r in results][:80]}}
