"""Call graph over the resolved program.

Edges: direct calls resolved through imports/aliases; `self.m()` through the
class hierarchy (definition in the MRO plus overrides in subclasses); calls of
a class -> its __init__; `X.method(...)` on unresolvable receivers -> every
method of that name in the package when the name is defined at most
`NAME_FANOUT` times (approximate edges, only ever used to widen
reachability, never to prove absence).
"""
import ast

from .index import unparse, walk_no_nested
from . import query as Q

NAME_FANOUT = 4
_IGNORED_NAMES = {'append', 'extend', 'get', 'items', 'keys', 'values',
                  'format', 'join', 'add', 'update', 'pop', 'write', 'read',
                  'string', 'copy', 'run', 'split', 'match', 'search',
                  'sub', 'replace', 'startswith', 'endswith', 'lower',
                  'upper', 'strip', 'insert', 'remove', 'sort', 'index',
                  'setdefault', 'clear', 'close', 'save', 'load'}


class CallGraph:
    def __init__(self, repo):
        self.repo = repo
        self.by_name = {}
        for fi in repo.functions.values():
            self.by_name.setdefault(fi.node.name, []).append(fi)
        self._succ = {}

    def callees(self, fi):
        """List of (callee FuncInfo, call node, exact)."""
        if fi.fq in self._succ:
            return self._succ[fi.fq]
        repo = self.repo
        out = []
        local = repo.local_scope(fi)
        for c in Q.calls(fi.node, nested=True):
            f = c.func
            if not isinstance(f, (ast.Name, ast.Attribute)):
                continue
            r = repo.resolve_expr(fi.module, f, local)
            if r is not None and r[0] == 'func':
                out.append((r[1], c, True))
                continue
            if r is not None and r[0] == 'class':
                o, init = r[1].find_method('__init__')
                if init is not None:
                    out.append((init._func, c, True))
                continue
            if isinstance(f, ast.Attribute):
                ci = fi.cls or repo.enclosing_class(fi.node)
                if isinstance(f.value, ast.Name) and f.value.id in (
                        'self', 'cls') and ci is not None:
                    o, meth = ci.find_method(f.attr)
                    if meth is not None:
                        out.append((meth._func, c, True))
                        for sub in ci.subclasses():
                            if f.attr in sub.methods:
                                out.append((sub.methods[f.attr]._func, c,
                                            True))
                        continue
                if isinstance(f.value, ast.Call) and unparse(
                        f.value.func) == 'super' and ci is not None:
                    for b in ci.mro()[1:]:
                        if f.attr in b.methods:
                            out.append((b.methods[f.attr]._func, c, True))
                            break
                    continue
                if f.attr in _IGNORED_NAMES:
                    # still follow save/load/run when the receiver text
                    # names a known class instance
                    pass
                cands = self.by_name.get(f.attr, [])
                cands = [x for x in cands if x.cls is not None or
                         r is None]
                if 0 < len(cands) <= NAME_FANOUT and \
                        f.attr not in _IGNORED_NAMES:
                    for x in cands:
                        out.append((x, c, False))
                elif f.attr in ('save', 'load') and isinstance(
                        f.value, ast.Call):
                    # Ctor(...).save(...)
                    rr = repo.resolve_expr(fi.module, f.value.func, local) \
                        if isinstance(f.value.func,
                                      (ast.Name, ast.Attribute)) else None
                    if rr and rr[0] == 'class':
                        o, meth = rr[1].find_method(f.attr)
                        if meth is not None:
                            out.append((meth._func, c, True))
        self._succ[fi.fq] = out
        return out

    def reachable(self, roots, max_depth=8):
        """fq -> (depth, path) for everything reachable from the roots."""
        seen = {}
        frontier = [(r, 0, [r.fq]) for r in roots]
        while frontier:
            fi, d, path = frontier.pop(0)
            if fi.fq in seen:
                continue
            seen[fi.fq] = (d, path)
            if d >= max_depth:
                continue
            for callee, c, exact in self.callees(fi):
                if callee.fq not in seen:
                    frontier.append((callee, d + 1, path + [callee.fq]))
        return seen
