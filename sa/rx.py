"""Structural analysis of regular-expression constants via re._parser.

Answers, without running the pattern on data:
  * which characters of the probe alphabet SIGMA a character class denotes;
  * for a substitution pattern of the shape used in the repo
    (optional-prefix groups + one single-character matcher), which characters
    are altered anywhere / only at string start;
  * whether a sub-pattern denotes exactly one literal string.
"""
import re._parser as sre_parse
import re._constants as sre_c

from .index import AnalysisError

# probe alphabet: printable ASCII + TAB + a few non-ASCII letters/symbols
SIGMA = [chr(c) for c in range(0x20, 0x7f)] + ['\t', 'é', 'ß', '日', '☃']


def parse(pattern, flags=0):
    try:
        return sre_parse.parse(pattern, flags)
    except Exception as e:
        raise AnalysisError('cannot parse regex {!r}: {}'.format(pattern, e))


def _category(cat, ch):
    name = str(cat)
    if name.endswith('CATEGORY_DIGIT'):
        return ch.isdigit()
    if name.endswith('CATEGORY_NOT_DIGIT'):
        return not ch.isdigit()
    if name.endswith('CATEGORY_SPACE'):
        return ch.isspace()
    if name.endswith('CATEGORY_NOT_SPACE'):
        return not ch.isspace()
    if name.endswith('CATEGORY_WORD'):
        return ch.isalnum() or ch == '_'
    if name.endswith('CATEGORY_NOT_WORD'):
        return not (ch.isalnum() or ch == '_')
    raise AnalysisError('unsupported regex category ' + name)


def in_matches(items, ch):
    """Does the IN item list match character ch?"""
    negate = False
    hit = False
    for op, av in items:
        if op is sre_c.NEGATE:
            negate = True
        elif op is sre_c.LITERAL:
            hit = hit or ord(ch) == av
        elif op is sre_c.RANGE:
            hit = hit or av[0] <= ord(ch) <= av[1]
        elif op is sre_c.CATEGORY:
            hit = hit or _category(av, ch)
        else:
            raise AnalysisError('unsupported item in class: ' + str(op))
    return hit != negate


def single_matcher_chars(op, av, sigma=SIGMA):
    """Characters matched by one single-character element, or None if the
    element is not a single-character matcher."""
    if op is sre_c.LITERAL:
        return {chr(av)}
    if op is sre_c.NOT_LITERAL:
        return {c for c in sigma if ord(c) != av}
    if op is sre_c.IN:
        return {c for c in sigma if in_matches(av, c)}
    if op is sre_c.ANY:
        return {c for c in sigma if c != '\n'}
    return None


def _can_be_empty(op, av):
    if op in (sre_c.MAX_REPEAT, sre_c.MIN_REPEAT):
        return av[0] == 0
    if op is sre_c.AT:
        return True
    if op is sre_c.SUBPATTERN:
        return all(_can_be_empty(o, a) for o, a in av[3])
    if op in (sre_c.ASSERT, sre_c.ASSERT_NOT):
        return True
    return False


def _alt_chars(seq, sigma):
    """One alternative: [AT_BEGINNING]? single-matcher. Returns
    (chars, start_only) or None."""
    seq = list(seq)
    start_only = False
    if seq and seq[0][0] is sre_c.AT and str(seq[0][1]).endswith(
            'AT_BEGINNING'):
        start_only = True
        seq = seq[1:]
    if len(seq) != 1:
        return None
    op, av = seq[0]
    if op is sre_c.SUBPATTERN:
        return _alt_set(av[3], sigma, start_only)
    ch = single_matcher_chars(op, av, sigma)
    if ch is None:
        if op is sre_c.BRANCH:
            return _alt_set([(op, av)], sigma, start_only)
        return None
    return [(ch, start_only)]


def _alt_set(seq, sigma, start_only=False):
    seq = list(seq)
    if len(seq) == 1 and seq[0][0] is sre_c.BRANCH:
        out = []
        for alt in seq[0][1][1]:
            r = _alt_chars(alt, sigma)
            if r is None:
                return None
            out += [(c, s or start_only) for c, s in r]
        return out
    r = _alt_chars(seq, sigma)
    if r is None:
        return None
    return [(c, s or start_only) for c, s in r]


class MultiCharPattern(AnalysisError):
    pass


def sub_pattern_chars(pattern, sigma=SIGMA):
    """For a substitution pattern made of optional (possibly-empty) prefix
    groups followed by exactly one single-character matcher (a literal, a
    class, or a group/branch of such, each optionally anchored with ^):
    return (anywhere, start_only, group_index_of_char) -- the sets of
    characters the pattern consumes. Raises AnalysisError for other shapes."""
    p = parse(pattern)
    seq = list(p)
    consuming = [(op, av) for op, av in seq if not _can_be_empty(op, av)]
    if len(consuming) != 1:
        raise AnalysisError(
            'substitution pattern {!r} is not of the shape '
            '<optional prefix><one character>'.format(pattern))
    # nothing that can consume input may follow the single character: a
    # pattern such as `\\$\\$?` swallows a second metacharacter and so does
    # not escape every occurrence
    idx = [i for i, (op, av) in enumerate(seq)
           if (op, av) is consuming[0] or (op, av) == consuming[0]][0]
    for op, av in seq[idx + 1:]:
        if op not in (sre_c.AT, sre_c.ASSERT, sre_c.ASSERT_NOT):
            raise MultiCharPattern(
                'substitution pattern {!r} can consume more than one '
                'character per match'.format(pattern))
    op, av = consuming[0]
    grp = None
    if op is sre_c.SUBPATTERN:
        grp = av[0]
        r = _alt_set(av[3], sigma)
    else:
        r = _alt_set([(op, av)], sigma)
    if r is None:
        raise AnalysisError(
            'substitution pattern {!r}: consuming part is not a '
            'single-character matcher'.format(pattern))
    anywhere, start = set(), set()
    for chars, s in r:
        (start if s else anywhere).update(chars)
    return anywhere, start - anywhere, grp


def class_chars(pattern, sigma=SIGMA):
    """Characters matched by a pattern that is exactly one character class
    (e.g. r'[^\\w@%+=:,./-]')."""
    p = parse(pattern)
    if len(p) != 1:
        raise AnalysisError('pattern {!r} is not a single character class'
                            .format(pattern))
    ch = single_matcher_chars(p[0][0], p[0][1], sigma)
    if ch is None:
        raise AnalysisError('pattern {!r} is not a single character class'
                            .format(pattern))
    return ch


def literal_language(seq):
    """If the sequence of parsed elements denotes exactly one string, return
    it; else None."""
    out = ''
    for op, av in seq:
        if op is sre_c.LITERAL:
            out += chr(av)
        elif op is sre_c.IN:
            chars = [(o, a) for o, a in av]
            if len(chars) == 1 and chars[0][0] is sre_c.LITERAL:
                out += chr(chars[0][1])
            else:
                return None
        elif op is sre_c.SUBPATTERN:
            s = literal_language(av[3])
            if s is None:
                return None
            out += s
        else:
            return None
    return out


def template_is_identity(template, grp):
    """Is the replacement template exactly the matched text (\\g<0>) or the
    concatenation of all groups in order? Only the trivial forms."""
    t = template
    return t in (r'\g<0>',) or (grp is not None and t in (
        '\\{}'.format(grp), r'\g<{}>'.format(grp)))


def search_alternative_chars(pattern, sigma=SIGMA):
    """For a pattern that is one character class or a group/branch of
    alternatives, each a single-character matcher optionally followed by an
    end anchor: (chars matched anywhere, chars matched only at the end)."""
    p = list(parse(pattern))
    if len(p) == 1 and p[0][0] is sre_c.SUBPATTERN:
        p = list(p[0][1][3])
    alts = [p]
    if len(p) == 1 and p[0][0] is sre_c.BRANCH:
        alts = [list(a) for a in p[0][1][1]]
    anywhere, at_end = set(), set()
    at_start = set()
    for alt in alts:
        end = False
        start = False
        if alt and alt[0][0] is sre_c.AT and str(alt[0][1]).endswith(
                'AT_BEGINNING'):
            start = True
            alt = alt[1:]
        if alt and alt[-1][0] is sre_c.AT and str(alt[-1][1]).endswith(
                'AT_END'):
            end = True
            alt = alt[:-1]
        if len(alt) != 1:
            raise AnalysisError('pattern {!r}: alternative is not a single '
                                'character'.format(pattern))
        ch = single_matcher_chars(alt[0][0], alt[0][1], sigma)
        if ch is None:
            raise AnalysisError('pattern {!r}: alternative is not a single '
                                'character'.format(pattern))
        (at_end if end else (at_start if start else anywhere)).update(ch)
    search_alternative_chars.last_start = at_start - anywhere
    return anywhere, at_end - anywhere
