"""Reader-side reference tables (trusted base, owned by the checker).

bfg9000 writes four little languages whose readers live outside the
repository. The writer's tables are extracted from the source on every run;
the reader's tables are frozen here, each with the clause of the manual it
comes from. Characters the properties themselves exclude (NUL, CR, LF; names no
escape exists for) are not listed.
"""

# --- GNU Make (manual 3.1, 3.3, 4.2-4.4, 4.10, 5.1, 6.2, 6.11, 8.1) --------
MK_VARVALUE = {'$': 'variable reference (6.1)',
               '#': 'starts a comment, even inside sh quotes (3.1)'}
MK_RECIPE = {'$': 'variable reference in recipes (5.1.2)'}
MK_RECIPE_FIRST = {'@': 'recipe prefix: silence (5.2)',
                   '-': 'recipe prefix: ignore errors (5.5)',
                   '+': 'recipe prefix: always execute (5.7.1)'}
MK_DEFINE = {'$': 'expanded when the recipe is run (6.8)'}
MK_TARGET = {'$': 'variable reference', '#': 'comment',
             ':': 'target/prerequisite separator (4.2)',
             ' ': 'separates names (4.2)', '\t': 'separates names',
             '%': 'pattern character (4.4, 10.5)',
             '*': 'wildcard (4.4)', '?': 'wildcard (4.4)',
             '[': 'wildcard (4.4)', ']': 'wildcard (4.4)'}
MK_TARGET_START = {'~': 'home-directory expansion at start of a name (4.4)'}
MK_PREREQ = dict(MK_TARGET)
MK_PREREQ['|'] = 'introduces order-only prerequisites (4.3)'
MK_PREREQ_START = dict(MK_TARGET_START)
MK_FUNCARG = {'$': 'variable reference', ',': 'argument separator (8.1)'}
MK_SQ_AUTOVAR = {"'": 'ends the sh single-quoted word around $@ / $< / $(1)'}

# characters the reader un-escapes in a context although they are not special
# there (escaping them is harmless); context -> characters, with the reason
UNESCAPED_TOO = {}

# --- Ninja (manual, "Lexical syntax") ---------------------------------------
NJ_PATH = {'$': 'escape character', ' ': 'separates paths',
           ':': 'ends the output list'}
NJ_VARVALUE = {'$': 'escape character / variable reference'}

# --- POSIX sh (XCU 2.2 Quoting, 2.6 Word Expansions, 2.9.1) -----------------
SH_WORD = {
    '|': 'operator', '&': 'operator', ';': 'operator', '<': 'operator',
    '>': 'operator', '(': 'operator', ')': 'operator',
    '$': 'parameter expansion', '`': 'command substitution',
    '\\': 'escape', '"': 'quote', "'": 'quote', ' ': 'field separator',
    '\t': 'field separator', '*': 'pathname expansion',
    '?': 'pathname expansion', '[': 'pathname expansion',
    '#': 'comment at word start', '~': 'tilde expansion at word start and after : or = in assignment '
         'words (XCU 2.6.1)',
    '!': 'reserved word / history', '{': 'reserved word / brace group',
    '}': 'reserved word / brace group',
}
# first word of a simple command: NAME=value is an assignment, not a command
SH_CMDWORD_EXTRA = {'=': 'a first word of the form NAME=... is a variable '
                         'assignment (2.9.1)'}

# --- pkg-config (pc(5)) ------------------------------------------------------
PC_VALUE = {'#': 'starts a comment anywhere on the line'}

# --- GCC / Clang driver option grammar (GCC manual "Option Summary") ---------
# Only the families bfg9000 emits. Each entry is a regex a flag literal must
# match in full.
GCC_FLAG_GRAMMAR = [
    r'-O(0|1|2|3|s|z|g|fast)?',
    r'-flto', r'-g', r'-w', r'-W(all|extra|error)', r'-pthread', r'-fPIC',
    r'-fPIE', r'-pie',
    r'-fsanitize=address', r'-std=.*', r'-D.*', r'-I.*', r'-isystem',
    r'-include', r'-static', r'-shared', r'-dynamiclib', r'-L.*', r'-l.*',
    r'-Wl,.*', r'-x', r'-c', r'-o', r'-E', r'-S', r'-MMD', r'-MF',
    r'-fcolor-diagnostics', r'-fdiagnostics-color(=.*)?', r'-mwindows',
    r'-framework', r'-install_name', r'-fuse-ld=.*', r'-m32', r'-m64',
    r'-target', r'--main=.*', r'-municode', r'-Winvalid-pch',
    r'-Xlinker', r'-rpath', r'-rpath-link', r'-soname', r'--out-implib=.*',
    r'-v', r'--version', r'-dumpmachine', r'--whole-archive',
    r'--no-whole-archive', r'-force_load', r'-fmodule-mapper=.*',
]


def sh_single_quote_lex(s):
    """Reference lexer (XCU 2.2.2, 2.2.1): interpret `s` as one or more
    adjacent sh words made of single-quoted strings and backslash-escaped
    characters; return the resulting word, or None if `s` is not of that
    form (unterminated quote, bare special character)."""
    out = ''
    i, n = 0, len(s)
    while i < n:
        c = s[i]
        if c == "'":
            j = s.find("'", i + 1)
            if j < 0:
                return None
            out += s[i + 1:j]
            i = j + 1
        elif c == '\\':
            if i + 1 >= n:
                return None
            out += s[i + 1]
            i += 2
        elif c in SH_WORD:
            return None
        else:
            out += c
            i += 1
    return out
