"""Run several properties' quick checks in one process (one Repo index) and
print one line per property: `<prop> rc=<rc>` followed by its violated /
ANALYSIS-ERROR lines. Used only by the corpus tools (run_seeded, run_neutral);
the registered MANIFEST commands use sa.run."""
import contextlib
import importlib
import io
import sys
import traceback

from .index import AnalysisError, Repo
from .report import Ctx


def main(argv):
    root = argv[0]
    props = argv[1].split(',')
    repo = Repo(root)
    for prop in props:
        buf = io.StringIO()
        with contextlib.redirect_stdout(buf):
            try:
                ctx = Ctx(prop, 'quick', repo, 0)
                mod = importlib.import_module('sa.props.' + prop.lower())
                mod.check(ctx)
                rc = ctx.finish(None)
            except AnalysisError as e:
                print('ANALYSIS-ERROR property={}: {}'.format(prop, e))
                rc = 2
            except Exception:
                tb = traceback.format_exc().strip().splitlines()
                print('ANALYSIS-ERROR property={}: internal error: {} @ {}'
                      .format(prop, tb[-1], tb[-3].strip() if len(tb) > 2
                              else ''))
                rc = 2
        print('## {} rc={}'.format(prop, rc))
        for l in buf.getvalue().splitlines():
            if 'violated:' in l or 'ANALYSIS-ERROR' in l:
                print(l.strip())
    return 0


if __name__ == '__main__':
    sys.exit(main(sys.argv[1:]))
