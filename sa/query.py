"""Syntax-tree queries shared by the rules."""
import ast

from .index import AnalysisError, unparse, walk_no_nested
from .consteval import _copy_tree as _ct

MUTATORS = {'append', 'add', 'extend', 'update', 'insert', 'pop', 'remove',
            'clear', 'setdefault', 'discard', 'popitem', 'sort', 'reverse',
            '__setitem__', '__delitem__'}


def calls(node, nested=True):
    it = ast.walk(node) if nested else walk_no_nested(node)
    return [n for n in it if isinstance(n, ast.Call)]


def all_calls(repo):
    cache = getattr(repo, '_all_calls', None)
    if cache is None:
        cache = []
        by_name = {}
        for m in repo.modules.values():
            for n in ast.walk(m.tree):
                if isinstance(n, ast.Call):
                    cache.append((m, n))
                    by_name.setdefault(attr_name(n.func), []).append((m, n))
        repo._all_calls = cache
        repo._calls_by_name = by_name
    return cache


def calls_named(repo, names):
    all_calls(repo)
    out = []
    for nm in names:
        out += repo._calls_by_name.get(nm, [])
    return out


def attr_name(node):
    """`x.y.z` -> 'z' for Attribute, id for Name."""
    if isinstance(node, ast.Attribute):
        return node.attr
    if isinstance(node, ast.Name):
        return node.id
    return None


def callee_attr(call):
    return attr_name(call.func)


def kwarg(call, name):
    for k in call.keywords:
        if k.arg == name:
            return k.value
    return None


def arg(call, pos, name=None):
    """Positional argument `pos` or keyword `name` of a call, else None."""
    if pos is not None and 0 <= pos < len(call.args) and not any(
            isinstance(a, ast.Starred) for a in call.args[:pos + 1]):
        return call.args[pos]
    if name is not None:
        return kwarg(call, name)
    return None


def attr_mutations(repo, attrname, modules=None):
    """Every place where an attribute named `attrname` (on any receiver) is
    rebound or mutated in place. Yields (module, node, kind)."""
    out = []
    for m in repo.modules.values():
        if modules is not None and m.name not in modules:
            continue
        for n in ast.walk(m.tree):
            if isinstance(n, (ast.Assign, ast.AugAssign, ast.AnnAssign,
                              ast.Delete)):
                tgts = (n.targets if isinstance(n, (ast.Assign, ast.Delete))
                        else [n.target])
                for t in tgts:
                    for sub in ast.walk(t):
                        if isinstance(sub, ast.Attribute) and \
                                sub.attr == attrname and isinstance(
                                    sub.ctx, (ast.Store, ast.Del)):
                            out.append((m, n, 'rebind'))
                        elif isinstance(sub, ast.Subscript) and isinstance(
                                sub.value, ast.Attribute) and \
                                sub.value.attr == attrname and isinstance(
                                    sub.ctx, (ast.Store, ast.Del)):
                            out.append((m, n, 'setitem'))
            elif isinstance(n, ast.Call) and isinstance(
                    n.func, ast.Attribute) and n.func.attr in MUTATORS:
                recv = n.func.value
                if isinstance(recv, ast.Attribute) and recv.attr == attrname:
                    out.append((m, n, n.func.attr))
    return out


def local_assignments(func_node, name):
    """All value expressions assigned to local `name` in the function
    (plain assignment only; tuple targets give None)."""
    out = []
    for n in walk_no_nested(func_node):
        if isinstance(n, ast.Assign):
            for t in n.targets:
                if isinstance(t, ast.Name) and t.id == name:
                    out.append(n.value)
                elif isinstance(t, (ast.Tuple, ast.List)):
                    for e in ast.walk(t):
                        if isinstance(e, ast.Name) and e.id == name:
                            out.append(None)
        elif isinstance(n, ast.AugAssign) and isinstance(
                n.target, ast.Name) and n.target.id == name:
            out.append(None)
        elif isinstance(n, (ast.For, ast.comprehension)):
            for e in ast.walk(n.target):
                if isinstance(e, ast.Name) and e.id == name:
                    out.append(None)
        elif isinstance(n, ast.withitem) and n.optional_vars is not None:
            for e in ast.walk(n.optional_vars):
                if isinstance(e, ast.Name) and e.id == name:
                    out.append(None)
    return out


def params(func_node):
    a = func_node.args
    return [x.arg for x in a.posonlyargs + a.args + a.kwonlyargs] + \
        ([a.vararg.arg] if a.vararg else []) + \
        ([a.kwarg.arg] if a.kwarg else [])


def param_default(func_node, name):
    a = func_node.args
    pos = a.posonlyargs + a.args
    defaults = [None] * (len(pos) - len(a.defaults)) + list(a.defaults)
    for p, d in zip(pos, defaults):
        if p.arg == name:
            return d
    for p, d in zip(a.kwonlyargs, a.kw_defaults):
        if p.arg == name:
            return d
    return None


def find_callers(repo, finfo, by_name_ok=True):
    """Call sites whose callee resolves to `finfo`; for attribute calls on
    unresolvable receivers, fall back to the method name (approximate,
    widening). Returns list of (module, call, exact:bool)."""
    name = finfo.node.name
    out = []
    # candidate calls: callee spelled with the function's name, the class
    # name (constructor) or through a local alias (resolved below)
    cand_names = {name}
    if name == '__init__' and finfo.cls is not None:
        cand_names.add(finfo.cls.name)
    all_calls(repo)
    pool = calls_named(repo, cand_names)
    if name == '__init__':
        # subclasses constructed by their own name
        for sub in finfo.cls.subclasses() if finfo.cls else []:
            pool += calls_named(repo, {sub.name})
    aliases = getattr(repo, '_alias_names', None)
    if aliases is None:
        aliases = {}
        for m in repo.modules.values():
            for loc, imp in m.imports.items():
                if imp[0] == 'symbol' and loc != imp[2]:
                    aliases.setdefault(imp[2], set()).add(loc)
        repo._alias_names = aliases
    for al in aliases.get(name, ()):
        pool += calls_named(repo, {al})
    seen_ids = set()
    for m, c in pool:
        if id(c) in seen_ids:
            continue
        seen_ids.add(id(c))
        f = c.func
        r = repo.resolve_expr(m, f) if isinstance(
            f, (ast.Name, ast.Attribute)) else None
        if r is not None and r[0] == 'func':
            if r[1] is finfo:
                out.append((m, c, True))
            continue
        if r is not None and r[0] == 'class' and name == '__init__':
            owner, meth = r[1].find_method('__init__')
            if meth is finfo.node:
                out.append((m, c, True))
            continue
        if isinstance(f, ast.Attribute) and f.attr == name:
            if isinstance(f.value, ast.Name) and f.value.id in ('self',
                                                                'cls'):
                # self.method(): resolve through the enclosing class
                ci = repo.enclosing_class(c)
                if ci is not None:
                    owner, meth = ci.find_method(name)
                    if meth is finfo.node:
                        out.append((m, c, True))
                        continue
                    if finfo.cls is not None and \
                            finfo.cls.is_subclass_of(ci.fq):
                        out.append((m, c, True))   # overridden below ci
                        continue
                    if meth is not None:
                        continue   # a different method of the same name
            if isinstance(f.value, ast.Call) and unparse(
                    f.value.func) == 'super':
                ci = repo.enclosing_class(c)
                if ci is not None:
                    hit = False
                    for b in ci.mro()[1:]:
                        if name in b.methods:
                            hit = b.methods[name] is finfo.node
                            break
                    if hit:
                        out.append((m, c, True))
                    continue
            if by_name_ok:
                out.append((m, c, False))
    return out


def require(cond, msg):
    if not cond:
        raise AnalysisError(msg)


def returns(func_node):
    return sorted((n for n in walk_no_nested(func_node)
                   if isinstance(n, ast.Return)), key=lambda r: r.lineno)


def text(node):
    return unparse(node)


class _Inliner(ast.NodeTransformer):
    def __init__(self, fn_node, depth=0):
        self.fn = fn_node
        self.depth = depth

    def visit_Name(self, node):
        if not isinstance(node.ctx, ast.Load) or self.depth > 6:
            return node
        if node.id in params(self.fn):
            return node
        vals = local_assignments(self.fn, node.id)
        if len(vals) == 1 and vals[0] is not None:
            import copy
            sub = _ct(vals[0])
            return _Inliner(self.fn, self.depth + 1).visit(sub)
        return node


def inline(fn_node, expr):
    """Text of `expr` with every local that is assigned exactly once
    replaced by its defining expression (recursively). Makes comparisons
    robust against extracting/renaming locals."""
    import copy
    if expr is None:
        return None
    e = _Inliner(fn_node).visit(_ct(expr))
    return unparse(e)
