"""Obligation bookkeeping, known findings, evidence and exit codes."""
import json
import os
import re
import sys
import time

VERIF = os.path.dirname(os.path.dirname(os.path.abspath(__file__)))
KNOWN_FILE = os.path.join(VERIF, 'KNOWN_FINDINGS.txt')
EVIDENCE_DIR = os.path.join(VERIF, 'evidence')
REPLAY_DIR = os.path.join(VERIF, 'replay')

_known_re = re.compile(
    r'^known:\s+property=(\S+)\s+rule=(\S+)\s+key=(.*?)\s+::\s+(.*)$')


def load_known(path=KNOWN_FILE):
    out = []
    if not os.path.exists(path):
        return out
    with open(path, encoding='utf-8') as f:
        for line in f:
            line = line.rstrip('\n')
            m = _known_re.match(line)
            if m:
                out.append({'property': m.group(1), 'rule': m.group(2),
                            'key': m.group(3), 'what': m.group(4)})
    return out


class Obligation:
    __slots__ = ('rule', 'key', 'ok', 'site', 'detail', 'known')

    def __init__(self, rule, key, ok, site, detail):
        self.rule = rule
        self.key = key
        self.ok = bool(ok)
        self.site = site
        self.detail = detail
        self.known = None

    def as_dict(self):
        d = {'rule': self.rule, 'instance': self.key,
             'verdict': 'ok' if self.ok else
             ('known-finding' if self.known else 'VIOLATED')}
        if self.site:
            d['site'] = self.site
        if self.detail and (not self.ok or self.detail.startswith(
                ('allow-listed', 'unreachable', 'consumed', 'loop body',
                 'result is', 'scanned', 'note:'))):
            d['detail'] = self.detail
        return d


class Ctx:
    """One run of all rules of one property."""

    def __init__(self, prop, tier, repo, seed=0):
        self.prop = prop
        self.tier = tier
        self.repo = repo
        self.seed = seed
        self.obligations = []
        self.notes = []
        self.rules = {}           # rule id -> description
        self.assumptions = []
        self.not_decided = []
        self.stats = {}
        self.t0 = time.time()
        self._keys = set()

    # -- recording --------------------------------------------------------
    def rule(self, rid, text):
        self.rules[rid] = text

    def ob(self, rule, key, ok, site=None, detail=''):
        """Record one rule instance. `key` identifies the construct (module,
        qualified function, normalised text) -- never a line number."""
        if isinstance(site, object) and hasattr(site, 'lineno'):
            site = self.repo.site(site)
        k = (rule, key)
        if k in self._keys:
            # same instance reached twice: keep the worse verdict
            for o in self.obligations:
                if (o.rule, o.key) == k:
                    if not ok and o.ok:
                        o.ok = False
                        o.detail = detail
                        o.site = site or o.site
                    return o
        self._keys.add(k)
        o = Obligation(rule, key, ok, site, detail)
        self.obligations.append(o)
        return o

    def note(self, text):
        self.notes.append(text)

    def assume(self, text):
        if text not in self.assumptions:
            self.assumptions.append(text)

    def stat(self, name, value):
        self.stats[name] = value

    def require_min(self, rule, n, minimum, what):
        """Fail closed if a rule matched fewer instances than were confirmed
        by hand when the rule was written."""
        from .index import AnalysisError
        if n < minimum:
            raise AnalysisError(
                '{}: only {} {} found, at least {} were confirmed by reading '
                'the code (rule would pass vacuously)'.format(
                    rule, n, what, minimum))

    # -- finishing --------------------------------------------------------
    def finish(self, extra=None):
        known = [k for k in load_known() if k['property'] == self.prop]
        failed = [o for o in self.obligations if not o.ok]
        violations = []
        known_hit = []
        from .advisory import ADVISORY
        advisories = []
        for o in failed:
            for k in known:
                if k['rule'] == o.rule and k['key'] == o.key:
                    o.known = k
                    known_hit.append((o, k))
                    break
            else:
                if (o.rule, o.key) in ADVISORY:
                    advisories.append(o)
                else:
                    violations.append(o)

        # evidence / replay files are only (re)written when the real
        # repository is analysed; scratch copies (self-test, seeded runs)
        # must never overwrite them
        official = os.path.realpath(self.repo.root) == '/repo' and \
            not os.environ.get('VERIF_NO_EVIDENCE')
        ev_dir = EVIDENCE_DIR if official else os.path.join(
            __import__('tempfile').gettempdir(), 'sa_scratch_evidence')
        rp_dir = REPLAY_DIR if official else ev_dir
        os.makedirs(ev_dir, exist_ok=True)
        lines = []
        for o, k in known_hit:
            lines.append('KNOWN-FINDING: property={} rule={} key={} :: {}'
                         .format(self.prop, o.rule, o.key, k['what']))
        for o in advisories:
            lines.append('  advisory: rule={} instance={} at {} -- {} [not '
                         'part of the claim: {}]'.format(
                             o.rule, o.key, o.site or '?', o.detail,
                             ADVISORY[(o.rule, o.key)]))
        replay = None
        if violations:
            os.makedirs(rp_dir, exist_ok=True)
            replay = os.path.join(rp_dir, '{}.{}.json'.format(
                self.prop, self.tier))
            with open(replay, 'w', encoding='utf-8') as f:
                json.dump({
                    'property': self.prop, 'tier': self.tier,
                    'violations': [o.as_dict() for o in violations],
                    'rules': {o.rule: self.rules.get(o.rule, '')
                              for o in violations},
                }, f, indent=1)
            for o in violations:
                lines.append('  violated: rule={} instance={} at {} -- {}'
                             .format(o.rule, o.key, o.site or '?', o.detail))
            lines.append('VIOLATION property={} replay={}'.format(
                self.prop, replay))

        nontrivial = len({(o.rule, o.key) for o in self.obligations})
        rules_used = sorted({o.rule for o in self.obligations})
        samples = []
        per_rule = {}
        for o in self.obligations:
            per_rule.setdefault(o.rule, []).append(o)
        for r in rules_used:
            bad = [o for o in per_rule[r] if not o.ok]
            good = [o for o in per_rule[r] if o.ok]
            for o in (bad[:4] + good[:3]):
                samples.append(o.as_dict())
        explanation = (
            'Static analysis (ast) of /repo working tree. Decided: the '
            'structural clauses ' + ', '.join(rules_used) + ' -- ' +
            ' | '.join('{}: {}'.format(r, self.rules.get(r, ''))
                       for r in rules_used) +
            ' || NOT decided (behaviour over run-time values): ' +
            ' | '.join(self.not_decided))
        cov = {
            'explanation': explanation,
            'obligations': len(self.obligations),
            'discharged': len([o for o in self.obligations if o.ok]),
            'known_findings_matched': len(known_hit),
            'evaluations': len(self.obligations),
            'distinct_nontrivial': nontrivial,
            'rule': 'one evaluation = one rule instance (site x table row) '
                    'enumerated from the source; distinct = distinct '
                    '(rule, construct key)',
            'samples': samples[:60],
            'exhaustive': True,
            'rules': {r: {'instances': len(per_rule[r]),
                          'violated': len([o for o in per_rule[r]
                                           if not o.ok])}
                      for r in rules_used},
            'modules_parsed': len(self.repo.modules),
            'functions_indexed': len(self.repo.functions),
            'classes_indexed': len(self.repo.classes),
            'source_digest': self.repo.digest,
            'notes': self.notes[:80],
            'advisory_clauses': {
                'demoted_instances_evaluated': len([
                    o for o in self.obligations
                    if (o.rule, o.key) in ADVISORY]),
                'failing_now': ['{}|{}'.format(o.rule, o.key)
                                for o in advisories],
                'meaning': 'clauses listed in sa/advisory.py are evaluated '
                           'and reported but are not part of the claim',
            },
        }
        cov.update(self.stats)
        if extra:
            cov.update(extra)
        ev = {
            'property_id': self.prop,
            'tier': self.tier,
            'seed': self.seed,
            'level': 'other',
            'coverage': cov,
            'assumptions': self.assumptions,
            'wall_s': round(time.time() - self.t0, 3),
            'violations': len(violations),
        }
        with open(os.path.join(ev_dir, self.prop + '.json'), 'w',
                  encoding='utf-8') as f:
            json.dump(ev, f, indent=1, sort_keys=True)
            f.write('\n')

        print('{} [{}]: {} rule instances over {} rules, {} satisfied, '
              '{} known findings, {} violations ({:.2f}s)'.format(
                  self.prop, self.tier, len(self.obligations),
                  len(rules_used), cov['discharged'], len(known_hit),
                  len(violations), time.time() - self.t0))
        for ln in lines:
            print(ln)
        sys.stdout.flush()
        return 1 if violations else 0
